#!/usr/bin/env python3
"""keep_mutant.py <seed-id> <property> <worktree> <outdir> '<needs>' '<caught-by>' ['<note>']"""
import sys, os, shutil, json, subprocess, glob
sid, prop, wt, out, needs, caught = sys.argv[1:7]
note = sys.argv[7] if len(sys.argv) > 7 else ""
dst = f"/verif/seeded/{sid}"
os.makedirs(dst, exist_ok=True)
shutil.copy(os.path.join(out, "patch.diff"), os.path.join(dst, "patch.diff"))
demos = [l.split()[1] for l in subprocess.run(["git", "-C", wt, "status", "--porcelain"], capture_output=True, text=True).stdout.splitlines() if l.startswith("??")]
demo_files = []
for d in demos:
    src = os.path.join(wt, d)
    if os.path.isfile(src):
        name = d.replace("/", "__")
        shutil.copy(src, os.path.join(dst, name + ".txt" if name.endswith(".go") else name))
        demo_files.append({"file": name + (".txt" if name.endswith(".go") else ""), "belongs_at": d})
if os.path.exists(os.path.join(out, "notes.md")):
    shutil.copy(os.path.join(out, "notes.md"), os.path.join(dst, "notes.md"))
files = subprocess.run(["git", "-C", wt, "diff", "--stat"], capture_output=True, text=True).stdout.strip().splitlines()
meta = {
    "id": sid, "property": prop,
    "changed": files[:-1] if files else [],
    "needs_to_manifest": needs,
    "demonstration": demo_files,
    "demonstration_cmd": "copy the demo file to the path in belongs_at (drop the .txt suffix) and run: go test -mod=mod -vet=off -count=1 -run 'Demo|ZZ' ./<its package dir>",
    "confirmed": "builds; pinned suite passes with the change (timing-flaky PID curve tests aside); demonstration fails with the change and passes without (git stash / stash pop in the scratch worktree)",
    "checks_run": "bin/try_mutant <worktree> <ids> (quick tier, worker rebuilt against the scratch worktree through an alternate go.mod); see caught_by",
    "caught_by": caught,
    "note": note,
    "origin": "independent sub-agent given only the property text and a scratch worktree",
}
json.dump(meta, open(os.path.join(dst, "meta.json"), "w"), indent=1)
print("kept", dst, demo_files)
