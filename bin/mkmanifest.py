#!/usr/bin/env python3
"""Regenerates /verif/MANIFEST.json from the table below (keeps it schema-valid)."""
import json, subprocess, os
V = os.path.dirname(os.path.dirname(os.path.abspath(__file__)))
props = [json.loads(l) for l in open(os.path.join(V, 'properties.jsonl'))]
hook_commits = subprocess.run(['git', '-C', '/repo', 'log', '--format=%H %s'], capture_output=True, text=True).stdout.splitlines()
hook_commits = [l.split()[0] for l in hook_commits if 'verif hooks' in l]

SIM = "deterministic simulation with fault injection: real code in a synctest bubble, seeded scheduler at I/O seams, world model, seeded search over scenarios/schedules/faults, shrinking + replay"
L1NOTE = "Trusted: the world model (hwmon driver semantics: accepts 0..255, optional idempotent quantiser; fan plant; temperature programmes), reconstruction of control cycles from seam events, the classification of call stacks (regulating / restore / start-up) by function name, testing/synctest's fake clock. "
claimed = {
 "C01": dict(cat="exploration", ref="§3/C01",
   text="Seeded search over fan limits, PWM maps (configured, swept against quantising drivers), algorithms incl. random-gain PID, absurd temperature histories, stalls and read/write faults; the real controller runs closed loop in virtual time and every PWM write issued from the regulating cycle is compared with the reference image set of requests within [min,max]. Evidence, not proof.",
   note=L1NOTE+"file/cmd fans: fixed limits 0/255; raises are not added to the floor (weaker, sound).",
   tech="deterministic simulation (closed loop in virtual time, fault injection), reference image-set oracle on every regulating write"),
 "C02": dict(cat="exploration", ref="§3/C02",
   text="Seeded search over neverStop fans (hwmon with configured or curve-derived minimum, file, cmd), algorithms and rotor-stall episodes injected into the fan plant; per control cycle the request (observed as PWM file content through identity read-back) is compared with the reference floor, raises must be strict and permanent, the reported minimum must never drop. Family c02side adds third-party PWM writes between control cycles and failed/absurd PWM reads inside the RPM monitor's sample.",
   note=L1NOTE+"Requests are only observable for identity maps; startPwm is not configured without minPwm here.",
   tech="deterministic simulation with plant-stall fault injection, per-cycle floor/raise invariants"),
 "C04": dict(cat="exploration", ref="§3/C04",
   text="Relational oracle over batches of simulated executions in virtual time (hours of idling cost seconds): per setting (min,max,c,m,tick) fresh starts from several starting requests for direct, rate-limited and default-PID loops and executions with prior histories; settle bound self-calibrated from the fresh starts, steady value independent of start/history, S(0)=min, S(255)=max, monotone in c, equal across algorithms (PID within 1), step bound and monotone approach.",
   note=L1NOTE+"Starting requests and settings are sampled, idle histories capped at 3000 cycles per execution; the fan always reports rotation.",
   tech="deterministic simulation in virtual time, relational (metamorphic) oracle across executions"),
 "C05": dict(cat="exploration", ref="§3/C05",
   text="Seeded search over third-party interference instants (by virtual time and by scheduler decision index, between and inside control cycles), externally written modes/PWM values, curve trajectories, algorithms and read-back-faithful PWM maps, against the real controller + real hwmon fan code in virtual time; oracle on driver files and the public statistics after the next full cycle. A clean batch is evidence, not proof.",
   note=L1NOTE+"Interference that lands inside a running cycle is only required to be undone and counted at most once.",
   tech="deterministic simulation (seeded schedule + third-party fault injection), oracle on driver state per control cycle"),
 "C06": dict(cat="exploration", ref="§3/C06",
   text="Generated curve graphs (linear, step sets, PID, all six function types nested to depth 4) are evaluated by a harness task inside the simulation over sensor states from the extreme set and at seeded virtual gaps; every reachable curve's value is compared with reference semantics written from the property text. Honest scope: reference-model comparison hosted by the simulator; the simulated clock is essential only for PID curves. Family c06conc: 2-4 evaluator tasks evaluate one shared graph of linear/step leaves and function curves at the same time, interleaved by the seeded kernel at the yield point before each member evaluation; with constant sensor values every result must equal the value of a sequential pass.",
   note="Trusted: the reference semantics in sim/refmodel (clamped interpolation, aggregate definitions, PID term), tolerance +-1 inside linear segments and for the PID term, none at saturation / step points / aggregates; the first PID evaluation is range-checked only.",
   tech="reference-model comparison inside the deterministic simulation (virtual clock for PID curves)"),
 "C07": dict(cat="exploration", ref="§3/C07",
   text="Dense temperature sweeps (1..100 m° grid) over generated monotone curve graphs, and slow temperature ramps through the real closed loop with the direct algorithm (window 1, poll = tick) for arbitrary fan limits and non-decreasing PWM maps: curve value and written PWM must never drop while the temperature rises. A 75 °C ramp costs seconds of virtual time.",
   note="Honest scope: the curve part is a property of pure functions; the closed-loop part (rescale, nearest lookup, write skip) is decided by running the system. Twin-world comparison was replaced by ramps.",
   tech="deterministic simulation (virtual-time ramps through the closed loop) + dense sweep of the real curve code"),
 "C08": dict(cat="exploration", ref="§3/C08",
   text="The real sensor monitor polls hwmon, file and cmd sensors in virtual time over seeded reading programmes and window sizes 1..50 while read faults (missing/empty/garbage/huge file, EIO, EACCES, command exit!=0, timeout, killed, nan/inf/garbage/empty output) are injected at seeded polls; after every poll the smoothed value is checked against hull, geometric convergence and exact invariance under failed polls.",
   note=L1NOTE+"EIO/EACCES and command timeouts are returned by the seam instead of the failing syscall; all other faults are produced by changing the real file / script so that the repository's own parsing runs. Floating-point tolerance 1e-12 (hull) / 1e-9 (convergence).",
   tech="deterministic simulation with read-fault injection, per-poll invariants against a reference hull/convergence model"),
 "C10": dict(cat="exploration", ref="§3/C10",
   text="Bounded liveness in counted RPM polls under a simulated clock: for seeded window sizes 1..50, prior RPM histories and stall instants, the request must rise within 20n+20 polls of continuous 0 RPM (again after each raise), and at the maximum the controller must report, stop regulating and restore the fan; in part of the runs a third party overwrites the PWM after every control cycle while fan2go keeps its request. Minutes of polling cost seconds in virtual time.",
   note=L1NOTE+"The constant 20 is an oracle parameter taken from the property wording; cycles run at least as often as polls; algorithms restricted to those that settle (premise: request unchanged).",
   tech="deterministic simulation (virtual time, plant-stall injection), bounded-liveness oracle in counted polls"),
 "C12": dict(cat="exploration", ref="§3/C12",
   text="Every control cycle of full-range fans with the direct algorithm (request = curve value) is compared with the reference nearest-supported-input computation, over configured maps (sparse, plateaus) and maps produced by the real sweep against quantising drivers; the decision not to write is judged too.",
   note=L1NOTE+"Honest scope: the relation is a pure function; simulation contributes swept maps, persistence and the write-skip logic. Requests outside 0..255 are unreachable through the running system and not covered.",
   tech="deterministic simulation as host; reference-model comparison per cycle"),
 "C13": dict(cat="exploration", ref="§3/C13",
   text="Start-up of hwmon fans by the real controller over arbitrary stored curve data and all combinations of configured min/start/max x neverStop, data measured by the real initialisation sequence against a simulated fan plant (virtual time), and repeated attachment of different data to the running fan; limits read through the public getters are compared with the reference derivation after start-up, at every cycle end and after each attach; empty data must make start-up fail.",
   note="Honest scope: mostly a state machine over data; simulation contributes measured data (init sequence in virtual time), persistence and the restart/re-attach path. All-zero data: only range and configured-wins asserted; the measured minimum is not asserted.",
   tech="deterministic simulation (init sequence against a plant in virtual time) + reference limit derivation"),
 "C16": dict(cat="exploration", ref="§3/C16",
   text="2-4 real controllers with an empty database start with seeded delays against fan plants of differing settle times; the seeded scheduler decides every interleaving of their file operations; analysis intervals on the kernel's event sequence must be pairwise disjoint when the option is false (overlap is demonstrably observable in the control group with the option true); 40% of the runs plant transient I/O faults inside an analysis. The lock hook parks a goroutine until the kernel observes the real mutex free (TryLock probe) and provides no exclusion itself, so removing or narrowing the real lock stays visible. A second family runs the whole program (configuration file, real loader, validation, daemon) in a process of its own with the option written in 14 spellings of false: the loader may refuse a spelling, but a daemon that starts analyses one fan at a time.",
   note=L1NOTE+"An analysis event is a file operation on the fan issued from the PWM sweep or the initialisation sequence (by function name) or a PWM value written to the fan between the start of its controller and the start of its regulation (by window).",
   tech="deterministic simulation: seeded schedule search over concurrent initialisation sequences, interval-disjointness oracle"),
 "C03": dict(cat="exploration", ref="§3/C03",
   text="One OS process per run executes the real program (cobra root command -> YAML -> Validate -> RunDaemon actor group) in a bubble; 1-3 termination signals are injected with os/signal's delivery semantics at seeded instants across all controller phases (start-up wait, analysis, first-second delay, between ticks, inside a cycle by decision index, same instant, after the Nth restore write) while restore-phase mode/PWM writes fail, are refused or silently ignored; after the process ended the driver files must satisfy (mode==original and original!=1) or PWM==255, the exit must be orderly and timely. Evidence, not proof.",
   note="Trusted: the signal-delivery model of the hook (non-blocking send per registered channel; panic on a closed registered channel halts the world as the real process death would) - cross-validated by family rt.c03, which sends real signals to the real daemon on the real clock (it reproduces the closed-channel crash on the pre-fix tree); the driver model; the parent's reading of final files. Unsatisfiable fault plans (every attempted write of 255 made to fail) are not judged.",
   tech="deterministic simulation of the whole daemon process with signal/fault injection at seeded schedule points; final-state oracle"),
 "C09": dict(cat="fault_enumeration", ref="§3/C09",
   text="A fixed, enumerated single-fault space (3519 faults: 27 backend/curve combinations x component x fault kind x position) is injected one at a time into the real daemon running closed loop in its own process under the simulator; thorough covers the whole list, quick a window of it chosen by VERIF_SEED; pairs of faults are sampled. After each run: no Go panic, no unrequested exit that leaves a fan unrestored, and every fan either still regulated at the end or stopped and restored; for a fan still regulated through a linear curve, once the last fault lies 4 virtual s back, the PWM in force at the horizon must correspond to the temperature of the last 2 s (regulating is more than ticking). Family c09init places the fault inside a fan's initial analysis instead; family c09shared lets the bystander fan use the same curve object as the affected fan. A child process whose journal falls silent while one of its goroutines waits in sync.Mutex.Lock called from fan2go code is reported as blocked for ever (goroutine dump taken with SIGQUIT), not as a harness time-out.",
   note="Exhaustive only over the listed single-fault space; pairs are sampled. An orderly whole-daemon shutdown that restores every fan is accepted as 'stops regulating after restoring'. EIO/EINVAL/timeouts are returned by the seam; other faults are produced on the real files and scripts.",
   tech="deterministic simulation with enumerated fault injection (one OS process per fault), survival + restore oracle"),
 "C11": dict(cat="exploration", ref="§3/C11",
   text="Generated YAML text (documented forms and seeded defects over curve graphs, ids, backends, references and option spellings) goes through the real `fan2go config validate` in its own process; an independent validator over the YAML text decides well-formedness (accepted => well-formed; documented-forms-only => accepted); every accepted document is booted by the real daemon in the simulated world, every curve evaluated under several sensor states, and each fan must complete control cycles without panic, stack overflow or stall.",
   note="Trusted: the harness's own spec validator (yaml.v3) and document generator; hwmon entries always name existing devices (binding failures belong to C17). A decode failure ending in a panic trace counts as rejection.",
   tech="generated configurations through the real loader/validator + boot in the deterministic simulation (process per document)"),
 "C15": dict(cat="exploration", ref="§3/C15",
   text="Multi-incarnation histories of the real program over one world directory in which only the bbolt database survives: daemon starts ended by injected SIGTERM, the real `fan reset` and `fan init` commands, each its own OS process in virtual time; the journal of PWM writes before the first control cycle decides whether the sweep / the RPM-curve measurement was repeated, for hwmon/file/cmd fans with and without configured pwmMap and min+max; some histories contain a configuration edit (pwmMap added or replaced) between two incarnations, after which every regulating write must be a value of the configured map; some restarts run while another process holds the database lock; re-analysis after reset guards against vacuous passes. One known finding (README promise about configured min+max) is listed in known_findings.json.",
   note="Trusted: classification of start-up writes by call stack (sweep vs measurement), thresholds 8 / 3 writes; process restarts model only loss of non-durable state (no torn database).",
   tech="deterministic simulation across process restarts (durable state only), start-up write-journal oracle"),
 "C17": dict(cat="exploration", ref="§3/C17",
   text="Generated fake hwmon trees and selectors go through the real discovery and matching code (over a pure-Go libsensors stand-in) inside the real daemon, three times with different seeded enumeration orders of the chips; the files each entry's own goroutines read and write are compared with a reference binding computed from tree + selector, must not include any other device, and must agree across orders; entries naming a non-existing device must end start-up with an error naming the entry, without a runtime-error panic and without any write.",
   note="Trusted base: the stand-in's feature ordering (type, then channel) matches libsensors - it defines what 'index' means. A ui.Fatal exit (message, then pterm's panic) before any device was written counts as a clean failure when the message names the entry.",
   tech="deterministic simulation of the daemon over generated device trees with permuted enumeration order; observed-I/O vs reference-binding oracle"),
 "C14": dict(cat="fault_enumeration", ref="§3/C14",
   text="(i) seeded sequences of save/load/delete/corrupt operations of both kinds over three fan ids with arbitrary maps run through the real persistence code (bbolt reopened per operation) against an in-memory model, reading back all six entries after every step; (ii) for each generated sequence a real worker process is killed by SIGKILL at the k-th pwrite64 and at the k-th fdatasync (strace syscall injection) for every k that sequence issues, and a fresh process reads everything back: acknowledged operations visible, the in-flight one all-or-nothing, other entries untouched; (iii) 2-3 concurrent clients of the persistence API whose operations the seeded kernel interleaves at the db.open yield point; the invoke/return history of every entry (kernel sequence numbers, unique values) is checked for linearizability against a per-entry register model with porcupine.",
   note="Crash points are enumerated exhaustively per sequence; sequences and client schedules are sampled. Process kill, not power loss (completed writes survive, no torn pwrite). The only seam inside a persistence operation is the yield point before the database is opened; inside the bbolt transaction the operations run atomically with respect to the simulator (bbolt's file lock serialises them in reality).",
   tech="model-based operation sequences + exhaustive crash-point injection per sequence (SIGKILL at syscall k via strace), fresh-process read-back; seeded client interleavings with a porcupine linearizability check"),
 "C18": dict(cat="exploration", ref="§3/C18",
   text="As root the harness walks an executable and a configuration file through owner x group x all 512 modes x {direct, symlink} with real chown/chmod and calls the real cmd sensor, cmd fan and configuration validation at every point: the command's side-effect marker must grow exactly when the reference predicate holds and the file is executable, a rejected file must yield an error and leave no trace; thorough enumerates all 4096 attribute points (that sub-space exhaustively), quick samples 2048 draws. The configuration-file rule is exercised with three kinds of declaration (cmd sensor used by a curve, cmd sensor no curve uses, cmd fan). A closed loop with cmd backends has its scripts' attributes flipped between executions by environment events, and scripts held open for writing (text file busy) that lose root control when the writer lets go; every exec event is judged on the attributes in force at its check, and a command that ran must still be root-controlled when it returns. A third family runs the real `fan2go -c <path> config validate` in a process of its own with the file reached directly, through a symbolic link, or through dir/link/../file (link a symbolic link to a directory, a root-controlled decoy at the lexically cleaned path): a document declaring a cmd sensor is accepted exactly when the file that was loaded is root-controlled.",
   note="Runs as root. Flips never land between check and start of one execution (inherent check-then-exec window). The walk is OS-level attribute enumeration; only c18loop runs under the simulator (c18cfg: kernel-scheduled child, no faults).",
   tech="attribute-space enumeration with side-effect marker oracle + deterministic simulation with permission-flip events"),
 "C19": dict(cat="fault_enumeration", ref="§3/C19",
   text="Two enumerated fault spaces: (a) under the simulator, every command fault of the C09 list (start failures: not executable, bad format, vanished between permission check and start; exit codes; killed; garbage/nan/empty output; injected timeout) in every backend/curve combination with cmd components - no panic, the loop continues or the fan is restored; (b) on the REAL clock, util.SafeCmdExecution against 18 misbehaving-command modes x 4 timeouts (sleepers, SIGTERM-ignoring, grandchildren holding stdout, huge output, stderr flood, start failures, executables that cannot even be examined: path through a regular file, symbolic link to itself) - returns within timeout + 1.5 s with the trimmed output or an error, never panics; plus sampled real-clock families: several hanging and quick invocations of ONE executable at the same time (rt.c19conc) and 14-24 calls one after the other in one process (rt.c19seq: nothing may accumulate from call to call).",
   note="Part (b) is fault injection against the real kernel without simulation: a simulated deadline cannot fire while a real child runs, and replacing exec by a model would remove the mechanism under test (stated in DESIGN.md). Margin 1.5 s, 16 cases in parallel. quick covers all 72 real-time cases and a window of (a).",
   tech="enumerated fault injection: in-simulation command faults + real-clock timing of the real exec path"),
 "C20": dict(cat="exploration", ref="§3/C20",
   text="Race-instrumented (-race) L1 worlds: several fans of all backends sharing one sensor, one linear curve, a PID curve and a function curve, all loops at 20-100 ms periods, REST clients (list and item endpoints via echo.ServeHTTP) and a metrics client (Prometheus Gather over the real collectors) at seeded instants, in virtual time. Two modes: a serialised seeded schedule whose hand-offs are invisible to the detector (the only visible edge is parker -> kernel through a large buffered channel; the release is under runtime.RaceDisable), and a free-running mode for true simultaneity. Reports are normalised to the unordered pair of owners of the racing state; 16 owner pairs are listed as known findings with their call sites, any other pair is a violation.",
   note="The detector only sees executed accesses: evidence, not proof. Reports whose access is in harness code are ignored and counted (none expected). Passive oracles that read repository memory are off in race builds. Known findings are matched on the owner pair (receiver type / API handler group), so e.g. removing a sensor's mutex (pair sensors.(*X) <-> sensors.(*X)) is still reported.",
   tech="deterministic simulation under the Go race detector with race-invisible scheduler hand-offs; normalised race-pair oracle"),
}
checks = []
for p in props:
    i = p['id']
    if i not in claimed: continue
    c = claimed[i]
    checks.append({
        "property_id": i,
        "quick_cmd": f"bin/check {i} quick",
        "thorough_cmd": f"bin/check {i} thorough",
        "evidence_file": f"/verif/evidence/{i}.json",
        "replay_cmd_template": ".build/simcheck replay {path}",
        "engine": "simcheck",
        "level_claimed": {"category": c['cat'], "text": c['text'], "design_ref": c['ref']},
        "level_note": c['note'],
        "technique": c['tech'],
    })
na = [{"property_id": p['id'], "reason": "check not built yet (work in progress; see DESIGN.md §9 for the order)"} for p in props if p['id'] not in claimed]
m = {
 "version": 1,
 "setup_cmd": "bin/setup",
 "hooks": {
  "guard": "verif",
  "enable": "go1.26.8 test -c -tags verif from the harness module /verif/sim (replace github.com/markusressel/fan2go => /repo; pure-Go stand-in for github.com/md14454/gosensors)",
  "baseline_off_cmd": "cd /repo && go test -mod=mod -json -vet=off -count=1 -timeout 25m ./...",
  "source_commits": hook_commits,
  "add_only": True
 },
 "engines": [{"name": "simcheck", "path": "sim/cmd/simcheck", "serves_properties": sorted(claimed), "kind_free_text": SIM}],
 "checks": checks,
 "notes": "bin/check <id> <tier> rebuilds orchestrator and worker from /repo's working tree (build tag verif) on every invocation. Exit 0 held / 1 VIOLATION / 2 harness or build trouble. Known findings: /verif/known_findings.json.",
 "not_applicable": na,
}
json.dump(m, open(os.path.join(V, 'MANIFEST.json'), 'w'), indent=1)
print("claimed", sorted(claimed), "na", len(na))
