#!/usr/bin/env python3
"""Regenerates /verif/MANIFEST.json from the table below (keeps it schema-valid)."""
import json, subprocess, os
V = os.path.dirname(os.path.dirname(os.path.abspath(__file__)))
props = [json.loads(l) for l in open(os.path.join(V, 'properties.jsonl'))]
hook_commits = subprocess.run(['git', '-C', '/repo', 'log', '--format=%H %s'], capture_output=True, text=True).stdout.splitlines()
hook_commits = [l.split()[0] for l in hook_commits if 'verif hooks' in l]

SIM = "deterministic simulation with fault injection: real code in a synctest bubble, seeded scheduler at I/O seams, world model, seeded search over scenarios/schedules/faults, shrinking + replay"
claimed = {
 "C05": dict(cat="exploration", ref="§3/C05",
   text="Seeded search over third-party interference instants (by virtual time and by scheduler decision index, between and inside control cycles), externally written modes/PWM values, curve trajectories, algorithms and read-back-faithful PWM maps, against the real controller + real hwmon fan code in virtual time; oracle on driver files and the public statistics after the next full cycle. A clean batch is evidence, not proof.",
   note="Trusted: the world's hwmon driver model (accepts 0..255, optional idempotent quantiser), the cycle reconstruction from seam events (ctl.tick / ctl.cycle.end yields), testing/synctest's fake clock. Interference that lands inside a running cycle is only required to be undone and counted at most once.",
   tech="deterministic simulation (seeded schedule + third-party fault injection), oracle on driver state per control cycle"),
}
checks = []
for p in props:
    i = p['id']
    if i not in claimed: continue
    c = claimed[i]
    checks.append({
        "property_id": i,
        "quick_cmd": f"bin/check {i} quick",
        "thorough_cmd": f"bin/check {i} thorough",
        "evidence_file": f"/verif/evidence/{i}.json",
        "replay_cmd_template": ".build/simcheck replay {path}",
        "engine": "simcheck",
        "level_claimed": {"category": c['cat'], "text": c['text'], "design_ref": c['ref']},
        "level_note": c['note'],
        "technique": c['tech'],
    })
na = [{"property_id": p['id'], "reason": "check not built yet (work in progress; see DESIGN.md §9 for the order)"} for p in props if p['id'] not in claimed]
m = {
 "version": 1,
 "setup_cmd": "bin/setup",
 "hooks": {
  "guard": "verif",
  "enable": "go1.26.8 test -c -tags verif from the harness module /verif/sim (replace github.com/markusressel/fan2go => /repo; pure-Go stand-in for github.com/md14454/gosensors)",
  "baseline_off_cmd": "cd /repo && go test -mod=mod -json -vet=off -count=1 -timeout 25m ./...",
  "source_commits": hook_commits,
  "add_only": True
 },
 "engines": [{"name": "simcheck", "path": "sim/cmd/simcheck", "serves_properties": sorted(claimed), "kind_free_text": SIM}],
 "checks": checks,
 "notes": "bin/check <id> <tier> rebuilds orchestrator and worker from /repo's working tree (build tag verif) on every invocation. Exit 0 held / 1 VIOLATION / 2 harness or build trouble. Known findings: /verif/known_findings.json.",
 "not_applicable": na,
}
json.dump(m, open(os.path.join(V, 'MANIFEST.json'), 'w'), indent=1)
print("claimed", sorted(claimed), "na", len(na))
