// Package check holds the run result / verdict types shared by the worker
// (which produces them) and the orchestrator (which aggregates them).
package check

import (
	"fmt"
	"sort"
)

// Violation is one judged mismatch between oracle and system.
type Violation struct {
	Property string `json:"property"`
	Clause   string `json:"clause"` // which clause of the property's oracle
	// Sig is the structured signature used to match known findings:
	// clause + component kind + fault/config class (+ call site).
	Sig string `json:"sig"`
	Msg string `json:"msg"`
	T   string `json:"t,omitempty"`
	Seq int    `json:"seq,omitempty"`
}

// Result is what one simulated run reports.
type Result struct {
	Family     string            `json:"family"`
	Seed       uint64            `json:"seed"`
	Hash       string            `json:"hash"`       // event-log hash (determinism witness)
	Interleave string            `json:"interleave"` // hash of the (actor-kind, seam-kind) sequence
	ScHash     string            `json:"scHash"`     // hash of the scenario
	Reason     string            `json:"reason"`
	Events     int               `json:"events"`
	MultiCh    int               `json:"multiChoice"`
	VirtualSec float64           `json:"virtualSec"`
	Faults     map[string]int    `json:"faults,omitempty"`
	Probes     map[string]int    `json:"probes,omitempty"`
	States     []string          `json:"states,omitempty"`
	Nontrivial bool              `json:"nontrivial"`
	Violations []Violation       `json:"violations,omitempty"`
	Harness    string            `json:"harness,omitempty"` // harness-level failure (exit 2), not a violation
	Sample     string            `json:"sample,omitempty"`
	Notes      map[string]string `json:"notes,omitempty"`
	stateSet   map[string]bool
}

func NewResult(family string, seed uint64) *Result {
	return &Result{Family: family, Seed: seed, Faults: map[string]int{}, Probes: map[string]int{}, stateSet: map[string]bool{}, Notes: map[string]string{}}
}

func (r *Result) Violate(prop, clause, sig string, seq int, t fmt.Stringer, format string, a ...any) {
	if len(r.Violations) >= 20 {
		return
	}
	ts := ""
	if t != nil {
		ts = t.String()
	}
	r.Violations = append(r.Violations, Violation{Property: prop, Clause: clause, Sig: sig, Msg: fmt.Sprintf(format, a...), Seq: seq, T: ts})
}

func (r *Result) Probe(name string) { r.Probes[name]++ }

func (r *Result) ProbeN(name string, n int) { r.Probes[name] += n }

func (r *Result) State(s string) {
	if r.stateSet == nil {
		r.stateSet = map[string]bool{}
	}
	if !r.stateSet[s] {
		r.stateSet[s] = true
		if len(r.States) < 200 {
			r.States = append(r.States, s)
		}
	}
}

func (r *Result) SortStates() { sort.Strings(r.States) }
