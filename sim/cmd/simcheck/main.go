// simcheck is the orchestrator of the deterministic-simulation checks: it
// rebuilds the worker test binary from /repo's working tree (build tag verif),
// fans seeds out to worker processes, classifies worker deaths, matches
// violations against the committed known-findings file, shrinks and writes a
// replay file for new violations, and writes the evidence file.
//
// Exit codes: 0 property held on everything explored (KNOWN-FINDING lines
// possible); 1 with "VIOLATION property=<id> replay=<path>"; 2 build failure,
// watchdog, harness failure, reach probe at zero, replay mismatch.
package main

import (
	"bufio"
	"bytes"
	"encoding/json"
	"flag"
	"fmt"
	"os"
	"os/exec"
	"path/filepath"
	"regexp"
	"sort"
	"strconv"
	"strings"
	"sync"
	"time"

	"github.com/markusressel/fan2go/zverif/check"
	"github.com/markusressel/fan2go/zverif/world"
)

var (
	verifDir = envOr("VERIF_DIR", "/verif")
	repoDir  = envOr("VERIF_REPO", "/repo")
	goBin    = envOr("VERIF_GO", "go1.26.8")
)

func envOr(k, d string) string {
	if v := os.Getenv(k); v != "" {
		return v
	}
	return d
}

func goEnv() []string {
	env := os.Environ()
	env = append(env, "GOFLAGS=-mod=mod", "GOPROXY=off", "GOSUMDB=off", "GOTOOLCHAIN=local", "CGO_ENABLED=1")
	return env
}

func fatal2(format string, a ...any) {
	fmt.Fprintf(os.Stderr, "simcheck: "+format+"\n", a...)
	os.Exit(2)
}

// buildWorker compiles the worker test binary against the repository's working
// tree. With VERIF_REPO pointing somewhere else than /repo (a scratch worktree
// holding a seeded change) an alternative go.mod with that replace path is used.
func buildWorker(race bool) string {
	simDir := filepath.Join(verifDir, "sim")
	outDir := filepath.Join(verifDir, ".build")
	_ = os.MkdirAll(outDir, 0755)
	var modArgs []string
	if repoDir != "/repo" {
		h := fmt.Sprintf("%x", hashString(repoDir))
		outDir = filepath.Join(outDir, "alt-"+h)
		_ = os.MkdirAll(outDir, 0755)
		mod, err := os.ReadFile(filepath.Join(simDir, "go.mod"))
		if err != nil {
			fatal2("%v", err)
		}
		alt := strings.Replace(string(mod), "github.com/markusressel/fan2go => /repo", "github.com/markusressel/fan2go => "+repoDir, 1)
		alt = strings.Replace(alt, "=> ./gosensors", "=> "+filepath.Join(simDir, "gosensors"), 1)
		altMod := filepath.Join(outDir, "alt.mod")
		_ = os.WriteFile(altMod, []byte(alt), 0644)
		if data, err := os.ReadFile(filepath.Join(repoDir, "go.sum")); err == nil {
			_ = os.WriteFile(filepath.Join(outDir, "alt.sum"), data, 0644)
		}
		modArgs = []string{"-modfile=" + altMod}
	} else if data, err := os.ReadFile(filepath.Join(repoDir, "go.sum")); err == nil {
		_ = os.WriteFile(filepath.Join(simDir, "go.sum"), data, 0644)
	}
	out := filepath.Join(outDir, "worker.test")
	args := []string{"test", "-c", "-tags", "verif"}
	if race {
		out = filepath.Join(outDir, "worker.race.test")
		args = []string{"test", "-c", "-race", "-tags", "verif"}
	}
	args = append(args, modArgs...)
	args = append(args, "-o", out, "./worker/")
	cmd := exec.Command(goBin, args...)
	cmd.Dir = simDir
	cmd.Env = goEnv()
	var buf bytes.Buffer
	cmd.Stdout, cmd.Stderr = &buf, &buf
	start := time.Now()
	if err := cmd.Run(); err != nil {
		fmt.Fprintln(os.Stderr, buf.String())
		fatal2("building the worker from %s failed: %v", repoDir, err)
	}
	fmt.Fprintf(os.Stderr, "simcheck: worker built in %.1fs from %s (race=%v)\n", time.Since(start).Seconds(), repoDir, race)
	return out
}

func hashString(s string) uint32 {
	var h uint32 = 2166136261
	for i := 0; i < len(s); i++ {
		h = (h ^ uint32(s[i])) * 16777619
	}
	return h
}

// ---------------------------------------------------------------------------

type KnownFinding struct {
	Property string `json:"property"`
	Status   string `json:"status"` // known | fixed
	Sig      string `json:"sig"`    // regular expression matched against the violation signature
	What     string `json:"what"`
	Commit   string `json:"commit,omitempty"`
	re       *regexp.Regexp
}

func loadKnown() []*KnownFinding {
	data, err := os.ReadFile(filepath.Join(verifDir, "known_findings.json"))
	if err != nil {
		return nil
	}
	var kf []*KnownFinding
	if err := json.Unmarshal(data, &kf); err != nil {
		fatal2("known_findings.json: %v", err)
	}
	for _, k := range kf {
		re, err := regexp.Compile(k.Sig)
		if err != nil {
			fatal2("known_findings.json: bad sig %q: %v", k.Sig, err)
		}
		k.re = re
	}
	return kf
}

func matchKnown(kf []*KnownFinding, v *check.Violation) *KnownFinding {
	for _, k := range kf {
		if k.Status == "known" && k.Property == v.Property && k.re.MatchString(v.Sig) {
			return k
		}
	}
	return nil
}

// ---------------------------------------------------------------------------

type job struct {
	Family   string          `json:"family"`
	Tier     string          `json:"tier"`
	From     uint64          `json:"from"`
	N        int             `json:"n"`
	Stride   uint64          `json:"stride"`
	Scenario *world.Scenario `json:"scenario,omitempty"`
	DumpDir  string          `json:"dumpDir,omitempty"`
}

type runOut struct {
	res      *check.Result
	family   string
	seed     uint64
	died     bool   // worker died while this seed was in flight
	stderr   string // tail of stderr when it died
	exitCode int
	timeout  bool
}

var tmpCounter int
var tmpMu sync.Mutex

func scratchDir() string {
	d := filepath.Join("/dev/shm", fmt.Sprintf("verif-orch-%d", os.Getpid()))
	_ = os.MkdirAll(d, 0755)
	return d
}

// runJob runs one worker process over a job and returns the per-seed outcomes.
func runJob(bin string, j *job, timeout time.Duration, extraEnv ...string) []runOut {
	tmpMu.Lock()
	tmpCounter++
	jobPath := filepath.Join(scratchDir(), fmt.Sprintf("job-%d.json", tmpCounter))
	tmpMu.Unlock()
	data, _ := json.Marshal(j)
	_ = os.WriteFile(jobPath, data, 0644)
	defer os.Remove(jobPath)
	cmd := exec.Command(bin, "-test.run", "^TestWorker$", "-test.timeout", "0")
	cmd.Env = append(os.Environ(), "VERIF_JOB="+jobPath, "GORACE=halt_on_error=0")
	cmd.Env = append(cmd.Env, extraEnv...)
	cmd.Dir = scratchDir()
	stdout, _ := cmd.StdoutPipe()
	var errBuf tailBuffer
	errBuf.big = strings.Contains(bin, ".race.")
	cmd.Stderr = &errBuf
	if err := cmd.Start(); err != nil {
		fatal2("cannot start worker: %v", err)
	}
	timedOut := false
	timer := time.AfterFunc(timeout, func() { timedOut = true; _ = cmd.Process.Kill() })
	defer timer.Stop()
	var outs []runOut
	var cur *runOut
	sc := bufio.NewScanner(stdout)
	sc.Buffer(make([]byte, 1<<20), 64<<20)
	for sc.Scan() {
		line := sc.Text()
		if strings.HasPrefix(line, "BEGIN ") {
			parts := strings.Fields(line)
			if len(parts) == 3 {
				seed, _ := strconv.ParseUint(parts[2], 10, 64)
				cur = &runOut{family: parts[1], seed: seed}
			}
		} else if strings.HasPrefix(line, "END ") {
			var res check.Result
			if err := json.Unmarshal([]byte(line[4:]), &res); err == nil && cur != nil {
				cur.res = &res
				outs = append(outs, *cur)
				cur = nil
			}
		}
	}
	err := cmd.Wait()
	// a worker that died (or was killed) leaves its world directories behind
	if pid := cmd.Process.Pid; pid > 0 {
		for _, pat := range []string{"verif-%d-*", "verif-l2-%d-*", "verif-c14-%d-*", "verif-c14c-%d-*", "verif-c18-%d-*", "verif-c19-%d-*"} {
			if left, e := filepath.Glob(filepath.Join("/dev/shm", fmt.Sprintf(pat, pid))); e == nil {
				for _, d := range left {
					_ = os.RemoveAll(d)
				}
			}
		}
	}
	if errBuf.big {
		// race-instrumented worker: attach the detector's reports to the seeds they occurred in
		bySeed := parseRaces(errBuf.String())
		for i := range outs {
			if outs[i].res != nil {
				outs[i].res.Violations = append(outs[i].res.Violations, bySeed[outs[i].seed]...)
				if n := harnessRaces[outs[i].seed]; n > 0 {
					outs[i].res.Probes["race-reports-in-harness-code(ignored)"] += n
				}
			}
		}
	}
	if cur != nil {
		cur.died = true
		cur.stderr = errBuf.String()
		cur.timeout = timedOut
		if ee, ok := err.(*exec.ExitError); ok {
			cur.exitCode = ee.ExitCode()
		}
		outs = append(outs, *cur)
	} else if err != nil && len(outs) == 0 {
		outs = append(outs, runOut{family: j.Family, seed: j.From, died: true, stderr: errBuf.String(), timeout: timedOut, exitCode: -1})
	}
	return outs
}

type tailBuffer struct {
	mu  sync.Mutex
	buf []byte
	big bool
}

func (t *tailBuffer) Write(p []byte) (int, error) {
	t.mu.Lock()
	defer t.mu.Unlock()
	t.buf = append(t.buf, p...)
	limit := 256 << 10
	if t.big {
		limit = 64 << 20
	}
	if len(t.buf) > limit {
		t.buf = t.buf[len(t.buf)-limit/2:]
	}
	return len(p), nil
}

func (t *tailBuffer) String() string { t.mu.Lock(); defer t.mu.Unlock(); return string(t.buf) }

// runSeeds runs seeds [from, from+n) of a family over `par` processes.
func runSeeds(bin string, fam FamilyPlan, tier string, from uint64, n int, par int, extraEnv []string) []runOut {
	chunk := fam.Chunk
	if chunk <= 0 {
		chunk = 10
	}
	type task struct {
		from uint64
		n    int
	}
	var tasks []task
	for i := 0; i < n; i += chunk {
		c := chunk
		if i+c > n {
			c = n - i
		}
		tasks = append(tasks, task{from + uint64(i), c})
	}
	var mu sync.Mutex
	var all []runOut
	var wg sync.WaitGroup
	ch := make(chan task)
	perSeed := fam.SeedTimeout
	if perSeed <= 0 {
		perSeed = 120 * time.Second
	}
	for w := 0; w < par; w++ {
		wg.Add(1)
		go func() {
			defer wg.Done()
			for tk := range ch {
				// a dying worker loses only the in-flight seed: continue after it
				f, left := tk.from, tk.n
				for left > 0 {
					outs := runJob(bin, &job{Family: fam.Name, Tier: tier, From: f, N: left, Stride: 1}, perSeed*time.Duration(left)+30*time.Second, extraEnv...)
					mu.Lock()
					all = append(all, outs...)
					mu.Unlock()
					done := len(outs)
					if done == 0 {
						break
					}
					f += uint64(done)
					left -= done
					if !outs[len(outs)-1].died {
						break
					}
				}
			}
		}()
	}
	for _, tk := range tasks {
		ch <- tk
	}
	close(ch)
	wg.Wait()
	sort.Slice(all, func(i, j int) bool { return all[i].seed < all[j].seed })
	return all
}

// ---------------------------------------------------------------------------
// classification of worker deaths

var repoFrameRe = regexp.MustCompile(`github\.com/markusressel/fan2go/(?:internal|cmd)[^\s]*\(`)
var goroutineRe = regexp.MustCompile(`(?m)^goroutine \d+ `)

// classifyDeath turns a worker death into a violation signature, or "" when
// the death is the harness's own fault.
func classifyDeath(o *runOut) (sig string, msg string, harness bool) {
	se := o.stderr
	if o.timeout {
		return "", "worker watchdog expired", true
	}
	idx := strings.LastIndex(se, "panic: ")
	fatalIdx := strings.LastIndex(se, "fatal error: ")
	if idx < 0 && fatalIdx < 0 {
		if o.exitCode != 0 {
			// os.Exit from repository code (ui.FatalWithoutStacktrace, RunDaemon)
			return fmt.Sprintf("exit status %d without result", o.exitCode), fmt.Sprintf("process exited with status %d in the middle of a run", o.exitCode), false
		}
		return "", "worker ended without result", true
	}
	if fatalIdx > idx {
		idx = fatalIdx
	}
	tail := se[idx:]
	first := tail
	if i := strings.IndexByte(first, '\n'); i > 0 {
		first = first[:i]
	}
	// the panicking goroutine's stack is the first one after the message
	stack := tail
	if locs := goroutineRe.FindAllStringIndex(tail, 3); len(locs) >= 2 {
		stack = tail[locs[0][0]:locs[1][0]]
	}
	frames := repoFrameRe.FindAllString(stack, -1)
	var repoFrames []string
	for _, f := range frames {
		if strings.Contains(f, "/zverif/") || strings.Contains(f, "internal/simhook") {
			continue
		}
		repoFrames = append(repoFrames, strings.TrimSuffix(strings.TrimPrefix(f, "github.com/markusressel/fan2go/"), "("))
	}
	for _, hc := range []string{"found pointer to free object", "found bad pointer in Go heap", "marked free object in span", "sweep increased allocation count"} {
		if strings.HasPrefix(first, "fatal error: "+hc) {
			// the garbage collector found the heap corrupted: in a free-running race run this is what
			// unsynchronised writes of multi-word values (map headers, slices, interfaces) can do; it is an
			// abrupt termination of the program under test, not a harness matter, and has no single call site
			return "runtime abort (heap corruption: " + hc + ")", first, false
		}
	}
	if len(repoFrames) == 0 {
		return "", "harness panic: " + first, true
	}
	top := repoFrames[0]
	// skip logging helpers to name the call site that decided to abort
	for _, f := range repoFrames {
		if !strings.HasPrefix(f, "internal/ui.") {
			top = f
			break
		}
	}
	first = regexp.MustCompile(`0x[0-9a-f]+`).ReplaceAllString(first, "0x?")
	if len(first) > 160 {
		first = first[:160]
	}
	if strings.HasPrefix(first, "fatal error: concurrent map") {
		// the runtime's own abort on unsynchronised map access: name the kind, it identifies the shared state
		return "runtime abort (" + strings.TrimPrefix(first, "fatal error: ") + ") at " + top, first + " at " + top, false
	}
	return "panic at " + top, first + " at " + top, false
}

// ---------------------------------------------------------------------------

type FamilyPlan struct {
	Name        string
	Quick       int // runs in the quick tier
	Thorough    int
	Chunk       int
	SeedTimeout time.Duration
	Race        bool
	// DeathProperty: a worker death with repository frames during this family is
	// an abrupt termination of the system under test, judged under this property.
	DeathProperty string
}

type PropertyPlan struct {
	ID       string
	Level    string
	Families []FamilyPlan
	Rule     string
	Probes   []string // reach probes that must be non-zero (thorough: exit 2 otherwise)
	Assume   []string
	RealStub string
}

func main() {
	if len(os.Args) < 2 {
		fmt.Fprintln(os.Stderr, "usage: simcheck run|replay|selftest|list ...")
		os.Exit(2)
	}
	switch os.Args[1] {
	case "run":
		cmdRun(os.Args[2:])
	case "replay":
		cmdReplay(os.Args[2:])
	case "selftest":
		cmdSelftest(os.Args[2:])
	case "list":
		for _, p := range plans {
			fmt.Println(p.ID)
		}
	default:
		fmt.Fprintln(os.Stderr, "unknown command")
		os.Exit(2)
	}
}

func cmdRun(args []string) {
	fs := flag.NewFlagSet("run", flag.ExitOnError)
	prop := fs.String("prop", "", "property id")
	tier := fs.String("tier", envOr("VERIF_TIER", "quick"), "quick|thorough")
	par := fs.Int("par", 16, "worker processes")
	scale := fs.Float64("scale", 1, "multiply run counts")
	noShrink := fs.Bool("noshrink", false, "do not shrink")
	_ = fs.Parse(args)
	plan := findPlan(*prop)
	if plan == nil {
		fatal2("unknown property %q", *prop)
	}
	seed := uint64(1)
	if v := os.Getenv("VERIF_SEED"); v != "" {
		if s, err := strconv.ParseUint(v, 10, 64); err == nil {
			seed = s
		}
	}
	code := runProperty(plan, *tier, seed, *par, *scale, !*noShrink)
	os.RemoveAll(scratchDir())
	os.Exit(code)
}

func findPlan(id string) *PropertyPlan {
	for i := range plans {
		if strings.EqualFold(plans[i].ID, id) {
			return &plans[i]
		}
	}
	return nil
}

var harnessSelftest string

type evidence struct {
	PropertyID  string         `json:"property_id"`
	Tier        string         `json:"tier"`
	Seed        uint64         `json:"seed"`
	Level       string         `json:"level"`
	Coverage    map[string]any `json:"coverage"`
	Assumptions []string       `json:"assumptions"`
	WallS       float64        `json:"wall_s"`
	Violations  int            `json:"violations"`
}

func runProperty(plan *PropertyPlan, tier string, seed uint64, par int, scale float64, shrink bool) int {
	start := time.Now()
	defer os.RemoveAll(scratchDir())
	known := loadKnown()
	// replay files of earlier runs of this property are stale now
	if old, err := filepath.Glob(filepath.Join(envOr("VERIF_REPLAY_DIR", filepath.Join(verifDir, "replays")), plan.ID+"-*.json")); err == nil {
		for _, f := range old {
			_ = os.Remove(f)
		}
	}
	bins := map[bool]string{}
	var all []runOut
	famRuns := map[string]int{}
	for _, fam := range plan.Families {
		if _, ok := bins[fam.Race]; !ok {
			bins[fam.Race] = buildWorker(fam.Race)
		}
		n := fam.Quick
		if tier == "thorough" {
			n = fam.Thorough
		}
		n = int(float64(n)*scale + 0.5)
		if n <= 0 {
			continue
		}
		from := seed*1_000_003 + 7
		outs := runSeeds(bins[fam.Race], fam, tier, from, n, par, nil)
		famRuns[fam.Name] = len(outs)
		all = append(all, outs...)
	}
	// thorough: determinism self-test of this property's simulated families
	selftest := map[string]any{}
	if tier == "thorough" && os.Getenv("VERIF_NO_SELFTEST") == "" {
		mism, total := 0, 0
		for _, fam := range plan.Families {
			if fam.Race || strings.HasPrefix(fam.Name, "rt.") || fam.Name == "c14" || fam.Name == "c14crash" || fam.Name == "c18walk" {
				continue
			}
			ref := map[uint64]string{}
			for _, procs := range []string{"1", "4", "16"} {
				for rep := 0; rep < 2; rep++ {
					n := 8
					if fam.Chunk <= 2 {
						n = 3
					}
					outs := runSeeds(bins[false], FamilyPlan{Name: fam.Name, Chunk: 4, SeedTimeout: fam.SeedTimeout}, "quick", 777001, n, par, []string{"GOMAXPROCS=" + procs})
					for _, o := range outs {
						if o.res == nil || o.res.Hash == "" {
							continue
						}
						total++
						if h, ok := ref[o.seed]; ok && h != o.res.Hash {
							mism++
							fmt.Fprintf(os.Stderr, "simcheck: NONDETERMINISM family=%s seed=%d GOMAXPROCS=%s\n", fam.Name, o.seed, procs)
						} else if !ok {
							ref[o.seed] = o.res.Hash
						}
					}
				}
			}
		}
		selftest["executions_compared"] = total
		selftest["mismatches"] = mism
		selftest["method"] = "each seed of each simulated family executed 6 times (GOMAXPROCS 1/4/16 x 2 processes), event-log hashes compared"
		if mism > 0 {
			harnessSelftest = fmt.Sprintf("determinism self-test: %d mismatches in %d executions", mism, total)
		}
	}
	// aggregate
	cov := map[string]any{}
	cov["determinism_selftest"] = selftest
	faults := map[string]int{}
	probes := map[string]int{}
	states := map[string]bool{}
	inter := map[string]bool{}
	nontrivial := map[string]bool{}
	var samples []any
	evals, events, multi := 0, 0, 0
	vsec := 0.0
	harness := []string{}
	type found struct {
		v   check.Violation
		out *runOut
	}
	var newV []found
	knownSeen := map[string]int{}
	knownWhat := map[string]*KnownFinding{}
	for i := range all {
		o := &all[i]
		evals++
		var fam *FamilyPlan
		for k := range plan.Families {
			if plan.Families[k].Name == o.family {
				fam = &plan.Families[k]
			}
		}
		if o.died {
			sig, msg, isHarness := classifyDeath(o)
			if isHarness || fam == nil || fam.DeathProperty == "" {
				harness = append(harness, fmt.Sprintf("family %s seed %d: %s\n%s", o.family, o.seed, msg, tailLines(o.stderr, 40)))
				continue
			}
			v := check.Violation{Property: fam.DeathProperty, Clause: "abrupt-termination", Sig: "abrupt-termination " + sig, Msg: msg}
			if k := matchKnown(known, &v); k != nil {
				knownSeen[k.Sig]++
				knownWhat[k.Sig] = k
			} else {
				newV = append(newV, found{v, o})
			}
			probes["worker-death(classified as abrupt termination)"]++
			continue
		}
		r := o.res
		if r.Harness != "" {
			harness = append(harness, fmt.Sprintf("family %s seed %d: %s", o.family, o.seed, r.Harness))
			continue
		}
		events += r.Events
		multi += r.MultiCh
		vsec += r.VirtualSec
		for k, v := range r.Faults {
			faults[k] += v
		}
		for k, v := range r.Probes {
			probes[k] += v
		}
		for _, s := range r.States {
			states[s] = true
		}
		if r.Interleave != "" {
			inter[r.Interleave] = true
		}
		if r.Nontrivial {
			nontrivial[r.ScHash] = true
		}
		if len(samples) < 5 && r.Nontrivial {
			samples = append(samples, map[string]any{"seed": r.Seed, "family": r.Family, "scenario": r.Sample, "events": r.Events, "virtual_s": r.VirtualSec, "probes": r.Probes, "hash": r.Hash})
		}
		for _, v := range r.Violations {
			if v.Property != plan.ID {
				// by-product oracle of another property: reported there
				probes["byproduct-violation:"+v.Property]++
				continue
			}
			if k := matchKnown(known, &v); k != nil {
				knownSeen[k.Sig]++
				knownWhat[k.Sig] = k
			} else {
				newV = append(newV, found{v, o})
			}
		}
	}
	wall := time.Since(start).Seconds()
	if len(samples) == 0 {
		for i := range all {
			if all[i].res != nil {
				samples = append(samples, map[string]any{"seed": all[i].res.Seed, "scenario": all[i].res.Sample})
				break
			}
		}
	}
	cov["evaluations"] = evals
	cov["distinct_nontrivial"] = len(nontrivial)
	cov["rule"] = plan.Rule
	cov["samples"] = samples
	cov["runs_per_family"] = famRuns
	cov["runs_per_hour"] = int(float64(evals) / wall * 3600)
	cov["simulated_seconds"] = vsec
	cov["sched_events"] = events
	cov["decisions_with_choice"] = multi
	cov["faults_fired"] = faults
	cov["probes"] = probes
	cov["distinct_interleavings"] = len(inter)
	cov["distinct_states"] = len(states)
	cov["real_vs_stub"] = plan.RealStub
	ks := map[string]int{}
	for k, n := range knownSeen {
		ks[k] = n
	}
	cov["known_findings_seen"] = ks
	cov["exhaustive"] = false
	ev := evidence{PropertyID: plan.ID, Tier: tier, Seed: seed, Level: plan.Level, Coverage: cov, Assumptions: plan.Assume, WallS: wall, Violations: len(newV)}
	writeEvidence(&ev)

	exit := 0
	var keys []string
	for k := range knownSeen {
		keys = append(keys, k)
	}
	sort.Strings(keys)
	for _, k := range keys {
		fmt.Printf("KNOWN-FINDING: property=%s %s (seen in %d runs)\n", plan.ID, knownWhat[k].What, knownSeen[k])
	}
	if harnessSelftest != "" {
		harness = append(harness, harnessSelftest)
	}
	if len(harness) > 0 {
		for i, h := range harness {
			if i < 5 {
				fmt.Fprintf(os.Stderr, "HARNESS: %s\n", h)
			}
		}
		fmt.Fprintf(os.Stderr, "simcheck: %d harness failures\n", len(harness))
		exit = 2
	}
	for _, p := range plan.Probes {
		if probes[p] == 0 {
			fmt.Fprintf(os.Stderr, "simcheck: reach probe %q stuck at zero\n", p)
			if exit == 0 {
				exit = 2
			}
		}
	}
	if os.Getenv("VERIF_LIST_SIGS") != "" {
		cnt := map[string]int{}
		for _, f := range newV {
			cnt[f.v.Sig]++
		}
		var ks []string
		for k := range cnt {
			ks = append(ks, k)
		}
		sort.Strings(ks)
		for _, k := range ks {
			fmt.Printf("SIG %d %s\n", cnt[k], k)
		}
	}
	if len(newV) > 0 {
		// one replay file per distinct signature
		seen := map[string]bool{}
		for _, f := range newV {
			if seen[f.v.Sig] {
				continue
			}
			seen[f.v.Sig] = true
			if len(seen) > 5 {
				break
			}
			path := writeReplay(plan, bins, f.v, f.out, shrink && !isRaceFamily(plan, f.out.family), tier)
			fmt.Printf("VIOLATION property=%s replay=%s\n", plan.ID, path)
			fmt.Printf("  clause=%s sig=%q seed=%d: %s\n", f.v.Clause, f.v.Sig, f.out.seed, f.v.Msg)
		}
		exit = 1
	}
	fmt.Fprintf(os.Stderr, "simcheck: %s %s: %d runs, %d events, %.0f virtual s, %d distinct nontrivial, %d new violations, %d known sigs, %.1fs wall\n",
		plan.ID, tier, evals, events, vsec, len(nontrivial), len(newV), len(knownSeen), wall)
	return exit
}

func tailLines(s string, n int) string {
	lines := strings.Split(strings.TrimRight(s, "\n"), "\n")
	if len(lines) > n {
		lines = lines[len(lines)-n:]
	}
	return strings.Join(lines, "\n")
}

func writeEvidence(ev *evidence) {
	dir := envOr("VERIF_EVIDENCE_DIR", filepath.Join(verifDir, "evidence"))
	_ = os.MkdirAll(dir, 0755)
	b, _ := json.MarshalIndent(ev, "", " ")
	if err := os.WriteFile(filepath.Join(dir, ev.PropertyID+".json"), b, 0644); err != nil {
		fatal2("cannot write evidence: %v", err)
	}
}

// ---------------------------------------------------------------------------
// replay files, shrinking

type replayFile struct {
	Property string          `json:"property"`
	Clause   string          `json:"clause"`
	Sig      string          `json:"sig"`
	Msg      string          `json:"msg"`
	Seed     uint64          `json:"seed"`
	Hash     string          `json:"hash"`
	Race     bool            `json:"race,omitempty"`
	Death    bool            `json:"death,omitempty"`
	Shrunk   string          `json:"shrunk,omitempty"`
	Scenario *world.Scenario `json:"scenario"`
}

// genScenario asks a worker for the scenario of (family, seed).
func genScenario(bin string, family, tier string, seed uint64) *world.Scenario {
	cmd := exec.Command(bin, "-test.run", "^TestGen$")
	cmd.Env = append(os.Environ(), "VERIF_GEN_FAMILY="+family, "VERIF_GEN_SEED="+strconv.FormatUint(seed, 10), "VERIF_GEN_TIER="+tier)
	out, err := cmd.Output()
	if err != nil {
		return nil
	}
	i := bytes.Index(out, []byte("SCENARIO "))
	if i < 0 {
		return nil
	}
	line := out[i+9:]
	if j := bytes.IndexByte(line, '\n'); j >= 0 {
		line = line[:j]
	}
	var sc world.Scenario
	if json.Unmarshal(line, &sc) != nil {
		return nil
	}
	return &sc
}

// tryScenario runs one scenario in a fresh process and reports whether the
// same violation class (property + clause, or the same death signature) occurs.
func tryScenario(bin string, sc *world.Scenario, want check.Violation, death bool, deathProp string) (bool, string) {
	outs := runJob(bin, &job{Scenario: sc}, 180*time.Second)
	if len(outs) == 0 {
		return false, ""
	}
	o := &outs[0]
	if o.died {
		if !death {
			return false, ""
		}
		sig, _, harness := classifyDeath(o)
		return !harness && "abrupt-termination "+sig == want.Sig, ""
	}
	if death {
		return false, ""
	}
	for _, v := range o.res.Violations {
		if v.Property == want.Property && v.Clause == want.Clause {
			return true, o.res.Hash
		}
	}
	return false, ""
}

func writeReplay(plan *PropertyPlan, bins map[bool]string, v check.Violation, o *runOut, shrink bool, tier string) string {
	var fam *FamilyPlan
	for k := range plan.Families {
		if plan.Families[k].Name == o.family {
			fam = &plan.Families[k]
		}
	}
	bin := bins[fam.Race]
	sc := genScenario(bin, o.family, tier, o.seed)
	rf := &replayFile{Property: v.Property, Clause: v.Clause, Sig: v.Sig, Msg: v.Msg, Seed: o.seed, Race: fam.Race, Death: o.died, Scenario: sc}
	if o.res != nil {
		rf.Hash = o.res.Hash
	}
	if sc != nil && shrink {
		ok, _ := tryScenario(bin, sc, v, o.died, fam.DeathProperty)
		if ok {
			small, steps := shrinkScenario(bin, sc, v, o.died, fam.DeathProperty, 90*time.Second)
			rf.Scenario = small
			rf.Shrunk = steps
			if _, h := tryScenario(bin, small, v, o.died, fam.DeathProperty); h != "" {
				rf.Hash = h
			}
		} else {
			rf.Shrunk = "original scenario did not reproduce in a fresh process (not shrunk)"
		}
	}
	dir := envOr("VERIF_REPLAY_DIR", filepath.Join(verifDir, "replays"))
	_ = os.MkdirAll(dir, 0755)
	path := filepath.Join(dir, fmt.Sprintf("%s-%s-%d-%s.json", plan.ID, o.family, o.seed, sanitize(v.Clause)))
	b, _ := json.MarshalIndent(rf, "", " ")
	_ = os.WriteFile(path, b, 0644)
	return path
}

func sanitize(s string) string {
	return regexp.MustCompile(`[^A-Za-z0-9_.-]+`).ReplaceAllString(s, "_")
}

// shrinkScenario: greedy delta debugging over the scenario's explicit parts.
func shrinkScenario(bin string, sc *world.Scenario, want check.Violation, death bool, deathProp string, budget time.Duration) (*world.Scenario, string) {
	deadline := time.Now().Add(budget)
	cur := sc.Clone()
	var log []string
	try := func(c *world.Scenario, what string) bool {
		if time.Now().After(deadline) {
			return false
		}
		ok, _ := tryScenario(bin, c, want, death, deathProp)
		if ok {
			cur = c
			log = append(log, what)
		}
		return ok
	}
	changed := true
	for changed && time.Now().Before(deadline) {
		changed = false
		// drop environment events
		for i := len(cur.Env) - 1; i >= 0; i-- {
			c := cur.Clone()
			c.Env = append(c.Env[:i:i], c.Env[i+1:]...)
			if try(c, fmt.Sprintf("drop env[%d]", i)) {
				changed = true
			}
		}
		// drop faults
		for i := len(cur.Faults) - 1; i >= 0; i-- {
			c := cur.Clone()
			c.Faults = append(c.Faults[:i:i], c.Faults[i+1:]...)
			if try(c, fmt.Sprintf("drop fault[%d]", i)) {
				changed = true
			}
		}
		// drop fans (and curves/sensors nobody uses any more)
		for i := len(cur.Fans) - 1; i >= 0 && len(cur.Fans) > 1; i-- {
			c := cur.Clone()
			id := c.Fans[i].ID
			c.Fans = append(c.Fans[:i:i], c.Fans[i+1:]...)
			var env []world.EnvEvent
			for _, e := range c.Env {
				if e.Fan != id {
					env = append(env, e)
				}
			}
			c.Env = env
			var fl []world.FaultSpec
			for _, f := range c.Faults {
				if !strings.HasPrefix(f.Target, "fan:"+id+":") {
					fl = append(fl, f)
				}
			}
			c.Faults = fl
			if try(c, "drop fan "+id) {
				changed = true
			}
		}
		// simplify schedule and latency
		if !cur.FirstCandidate {
			c := cur.Clone()
			c.FirstCandidate = true
			if try(c, "schedule: first candidate") {
				changed = true
			}
		}
		if cur.LatMax > 0 {
			c := cur.Clone()
			c.LatMin, c.LatMax, c.SlowP = 0, 0, 0
			if try(c, "latency: zero") {
				changed = true
			}
		}
		// shorten the horizon
		for cur.Horizon.D() > 4*time.Second {
			c := cur.Clone()
			c.Horizon = world.Dur(cur.Horizon.D() * 2 / 3)
			if !try(c, fmt.Sprintf("horizon → %s", c.Horizon.D())) {
				break
			}
			changed = true
		}
		// simplify temperature programmes
		for i := range cur.Sensors {
			if cur.Sensors[i].Prog.Kind != "const" {
				c := cur.Clone()
				c.Sensors[i].Prog = world.TempProg{Kind: "const", Base: cur.Sensors[i].Prog.Base}
				if try(c, "sensor "+cur.Sensors[i].ID+": constant") {
					changed = true
				}
			}
		}
	}
	return cur, strings.Join(log, "; ")
}

func cmdReplay(args []string) {
	if len(args) < 1 {
		fatal2("usage: simcheck replay <file>")
	}
	data, err := os.ReadFile(args[0])
	if err != nil {
		fatal2("%v", err)
	}
	var rf replayFile
	if err := json.Unmarshal(data, &rf); err != nil {
		fatal2("%v", err)
	}
	if rf.Scenario == nil {
		fatal2("replay file has no scenario")
	}
	bin := buildWorker(rf.Race)
	defer os.RemoveAll(scratchDir())
	var hashes []string
	reproduced := 0
	for i := 0; i < 2; i++ {
		outs := runJob(bin, &job{Scenario: rf.Scenario}, 300*time.Second)
		if len(outs) == 0 {
			fatal2("no result")
		}
		o := &outs[0]
		if o.died {
			sig, msg, harness := classifyDeath(o)
			if harness {
				fatal2("worker died: %s", msg)
			}
			hashes = append(hashes, "death:"+sig)
			if "abrupt-termination "+sig == rf.Sig {
				reproduced++
			}
			fmt.Printf("run %d: worker died: %s\n", i+1, msg)
			continue
		}
		hashes = append(hashes, o.res.Hash)
		for _, v := range o.res.Violations {
			if v.Property == rf.Property && v.Clause == rf.Clause {
				reproduced++
				fmt.Printf("run %d: hash=%s VIOLATION property=%s clause=%s: %s\n", i+1, o.res.Hash, v.Property, v.Clause, v.Msg)
				break
			}
		}
	}
	if hashes[0] != hashes[1] {
		fatal2("replay is not deterministic: %v", hashes)
	}
	if rf.Hash != "" && !rf.Death && hashes[0] != rf.Hash {
		fmt.Fprintf(os.Stderr, "simcheck: note: event-log hash differs from the recorded one (%s vs %s): the code changed since the file was written\n", hashes[0], rf.Hash)
	}
	if reproduced == 2 {
		fmt.Printf("VIOLATION property=%s replay=%s\n", rf.Property, args[0])
		os.Exit(1)
	}
	fmt.Println("not reproduced (property held on this scenario)")
	os.Exit(0)
}

// cmdSelftest: determinism of the simulator: every seed twice per GOMAXPROCS value.
func cmdSelftest(args []string) {
	fs := flag.NewFlagSet("selftest", flag.ExitOnError)
	n := fs.Int("n", 30, "seeds per family")
	famList := fs.String("families", "", "comma separated (default: all non-race L1 families)")
	_ = fs.Parse(args)
	bin := buildWorker(false)
	defer os.RemoveAll(scratchDir())
	fams := strings.Split(*famList, ",")
	if *famList == "" {
		fams = nil
		seen := map[string]bool{}
		for _, p := range plans {
			for _, f := range p.Families {
				if !f.Race && !seen[f.Name] && !strings.HasPrefix(f.Name, "rt.") {
					seen[f.Name] = true
					fams = append(fams, f.Name)
				}
			}
		}
	}
	bad := 0
	total := 0
	for _, fam := range fams {
		ref := map[uint64]string{}
		for _, procs := range []string{"1", "4", "16"} {
			for rep := 0; rep < 2; rep++ {
				outs := runSeeds(bin, FamilyPlan{Name: fam, Chunk: 5}, "quick", 424243, *n, 16, []string{"GOMAXPROCS=" + procs})
				for _, o := range outs {
					if o.res == nil {
						continue
					}
					total++
					if h, ok := ref[o.seed]; ok {
						if h != o.res.Hash {
							bad++
							fmt.Printf("NONDETERMINISM family=%s seed=%d GOMAXPROCS=%s: %s vs %s\n", fam, o.seed, procs, h, o.res.Hash)
						}
					} else {
						ref[o.seed] = o.res.Hash
					}
				}
			}
		}
		fmt.Printf("selftest: family %s: %d seeds x 3 GOMAXPROCS x 2 compared\n", fam, len(ref))
	}
	fmt.Printf("selftest: %d executions compared, %d mismatches\n", total, bad)
	if bad > 0 {
		os.Exit(2)
	}
}

// ---------------------------------------------------------------------------
// race reports

var seedMarkRe = regexp.MustCompile(`(?m)^VERIF-SEED (\S+) (\d+)$`)
var accessRe = regexp.MustCompile(`(?m)^(Write|Read|Previous write|Previous read|Atomic write|Atomic read|Previous atomic write|Previous atomic read) at `)
var harnessRaces = map[uint64]int{}
var harnessRacesMu sync.Mutex

func isHarnessFn(fn string) bool {
	return strings.Contains(fn, "/zverif/") || strings.Contains(fn, "fan2go/internal/simhook")
}

func isRepoFn(fn string) bool {
	return (strings.HasPrefix(fn, "github.com/markusressel/fan2go/internal") || strings.HasPrefix(fn, "github.com/markusressel/fan2go/cmd")) && !isHarnessFn(fn)
}

// accessSite names one access of a race report: the first repository frame,
// plus the top frame when that is library code called from the repository.
func accessSite(lines []string) (site string, harness bool) {
	var fns []string
	for _, l := range lines {
		if strings.HasPrefix(l, "  ") && !strings.HasPrefix(l, "   ") {
			fn := strings.TrimSpace(l)
			fn = strings.TrimSuffix(fn, "()")
			fns = append(fns, fn)
		}
	}
	if len(fns) == 0 {
		return "?", false
	}
	if isHarnessFn(fns[0]) {
		return fns[0], true
	}
	short := func(fn string) string { return strings.TrimPrefix(fn, "github.com/markusressel/fan2go/") }
	for i, fn := range fns {
		if isHarnessFn(fn) {
			// library code called directly by the harness (e.g. a client task encoding JSON)
			if i == 0 {
				return fn, true
			}
			return short(fns[0]) + " (called by harness client)", false
		}
		if isRepoFn(fn) {
			// a plain helper function (no receiver) is not the owner of the state it touches on behalf of a
			// method: name the innermost enclosing method of the same package instead (fans.setLimit called by
			// fans.(*HwMonFan).SetMinPwm is an access to the HwMonFan), so that extracting a helper does not
			// turn a known pair into a new one
			owner := fn
			if !ownsState(short(fn)) {
				pkg := short(fn)
				if k := strings.Index(pkg, ".("); k > 0 {
					pkg = pkg[:k]
				} else if k := strings.LastIndex(pkg, "."); k > 0 {
					pkg = pkg[:k]
				}
				for _, outer := range fns[i+1:] {
					if !isRepoFn(outer) || !strings.HasPrefix(short(outer), pkg+".") {
						break
					}
					if ownsState(short(outer)) {
						owner = outer
						break
					}
				}
			}
			if owner != fn {
				return short(owner) + " via " + short(fn), false
			}
			if i == 0 {
				return short(fn), false
			}
			return short(fn) + " via " + fns[0], false
		}
	}
	return fns[0], false
}

func parseRaces(stderr string) map[uint64][]check.Violation {
	out := map[uint64][]check.Violation{}
	marks := seedMarkRe.FindAllStringSubmatchIndex(stderr, -1)
	seedAt := func(pos int) (uint64, bool) {
		var seed uint64
		ok := false
		for _, m := range marks {
			if m[0] > pos {
				break
			}
			seed, _ = strconv.ParseUint(stderr[m[4]:m[5]], 10, 64)
			ok = true
		}
		return seed, ok
	}
	seen := map[string]bool{}
	idx := 0
	for {
		i := strings.Index(stderr[idx:], "WARNING: DATA RACE")
		if i < 0 {
			break
		}
		start := idx + i
		end := strings.Index(stderr[start:], "\n==================")
		block := stderr[start:]
		if end >= 0 {
			block = stderr[start : start+end]
		}
		idx = start + len("WARNING: DATA RACE")
		seed, ok := seedAt(start)
		if !ok {
			continue
		}
		locs := accessRe.FindAllStringIndex(block, -1)
		if len(locs) < 2 {
			continue
		}
		sec := func(a, b int) []string {
			lines := strings.Split(block[a:b], "\n")
			var keep []string
			for _, l := range lines[1:] {
				if strings.TrimSpace(l) == "" {
					break
				}
				keep = append(keep, l)
			}
			return keep
		}
		a, ha := accessSite(sec(locs[0][0], locs[1][0]))
		b, hb := accessSite(sec(locs[1][0], len(block)))
		if strings.HasSuffix(a, "(called by harness client)") && strings.HasSuffix(b, "(called by harness client)") {
			// both accesses are library code working for the harness's own tasks, no fan2go frame in between:
			// the racing state is the harness's
			ha = true
		}
		if ha || hb {
			harnessRacesMu.Lock()
			harnessRaces[seed]++
			harnessRacesMu.Unlock()
			continue
		}
		if a > b {
			a, b = b, a
		}
		// the finding's identity is the pair of owners of the racing state (receiver
		// type / handler group); the exact call sites go into the message
		oa, ob := raceOwner(a), raceOwner(b)
		if oa > ob {
			oa, ob = ob, oa
		}
		sig := "race " + oa + " <-> " + ob
		key := fmt.Sprint(seed) + sig
		if seen[key] {
			continue
		}
		seen[key] = true
		out[seed] = append(out[seed], check.Violation{Property: "C20", Clause: "data-race", Sig: sig, Msg: "the Go race detector reports unsynchronised accesses: " + a + "  <->  " + b})
	}
	return out
}

func isRaceFamily(plan *PropertyPlan, name string) bool {
	for _, f := range plan.Families {
		if f.Name == name {
			return f.Race
		}
	}
	return false
}

var recvRe = regexp.MustCompile(`^(.*?\.\(\*?[A-Za-z0-9_]+\))\.`)

// ownsState: the function is a method of an exported type (or belongs to a handler group): it names the
// owner of the state it touches. Plain helper functions and methods of unexported helper types embedded in
// the real owners (fans.(*fixedRangeFan), sensors.(*movingAvgGuard)) do not.
func ownsState(fn string) bool {
	if ownerGroup(fn) != "" {
		return true
	}
	m := recvRe.FindStringSubmatch(fn)
	if m == nil {
		return false
	}
	t := m[1]
	t = t[strings.LastIndex(t, "(")+1:]
	t = strings.TrimPrefix(strings.TrimSuffix(t, ")"), "*")
	return t != "" && t[0] >= 'A' && t[0] <= 'Z'
}

// ownerGroup names the handler groups that own state without being methods of it.
func ownerGroup(fn string) string {
	switch {
	case strings.HasPrefix(fn, "internal/api.getFan"):
		return "internal/api(fans)"
	case strings.HasPrefix(fn, "internal/api.getCurve"):
		return "internal/api(curves)"
	case strings.HasPrefix(fn, "internal/api.getSensor"):
		return "internal/api(sensors)"
	case strings.HasPrefix(fn, "internal/persistence."):
		// whichever function of the package decodes the stored bytes (a method of the unexported type, or a
		// helper it calls through the database library's transaction callback): the state is the decoded map
		return "internal/persistence(loaded map)"
	}
	return ""
}

// raceOwner reduces a call site to the owner of the state it touches: the
// receiver type of a method, or the handler group of an API function.
func raceOwner(site string) string {
	fn := site
	if i := strings.Index(fn, " via "); i >= 0 {
		fn = fn[:i]
	}
	if i := strings.Index(fn, " (called by"); i >= 0 {
		fn = fn[:i]
	}
	if m := recvRe.FindStringSubmatch(fn); m != nil {
		return m[1]
	}
	if g := ownerGroup(fn); g != "" {
		return g
	}
	// closures: pkg.Func.func1 → pkg.Func
	if i := strings.Index(fn, ".func"); i > 0 {
		fn = fn[:i]
	}
	return fn
}
