package main

import "time"

const realStubL1 = "real: internal/{controller,control_loop,curves,sensors,fans,persistence,configuration,hwmon,util,ui}, internal/monitor.go, InitializeObjects of internal/backend.go, bbolt, oklog/run; stub/model: libsensors (pure-Go gosensors stand-in over a fake hwmon tree), kernel hwmon drivers + fans + temperatures (world model on tmpfs), clock (testing/synctest fake clock), goroutine scheduling at seams (seeded kernel), signals/cancellation (context cancel by the harness), actor wiring of RunDaemon (replicated by the harness in L1 families)"

var plans = []PropertyPlan{
	{
		ID: "C05", Level: "exploration",
		Families: []FamilyPlan{{Name: "c05", Quick: 160, Thorough: 6000, Chunk: 10}},
		Rule: "each run = one generated L1 scenario (1-2 hwmon fans; identity / sparse config / idempotent-quantiser PWM map; direct, rate-limited or PID algorithm; piecewise-constant temperatures; 0-6 third-party mode/PWM writes placed by virtual time or by decision index, incl. inside a cycle) executed by the real controller under the seeded scheduler. distinct = distinct scenario hash; non-trivial = at least one interference was judged against the following full cycle, or the run was a quiet run judged on the zero-count clause",
		Probes:   []string{"interference-judged", "count-once-clause", "quiet-run", "interference-inside-cycle"},
		Assume:   []string{"third-party writes go through the same driver model as fan2go's (quantised)", "in-cycle interference is only required to be undone and counted at most once"},
		RealStub: realStubL1,
	},
}

func init() {
	plans = append(plans,
		PropertyPlan{
			ID: "C01", Level: "exploration",
			Families: []FamilyPlan{{Name: "c01", Quick: 320, Thorough: 12000, Chunk: 10}, {Name: "c01cmd", Quick: 24, Thorough: 600, Chunk: 3}},
			Rule:     "each run = one generated closed loop (1-2 fans of kind hwmon/file/cmd; limits configured or derived from stored curve data; neverStop on/off; identity/sparse/quantised PWM maps from configuration or from the real sweep; direct, rate-limited, default and random-gain PID; absurd temperature steps incl. int extremes; rotor stalls; read/write faults during regulation; slow I/O) run by the real controller + monitors for 15-45 virtual s. Oracle at every PWM write issued from the regulating cycle: value in reference image set {M[k]: k nearest supported input of x, lo<=x<=hi}. distinct = scenario hash; non-trivial = at least one regulating write was judged",
			Probes:   []string{"regulating-writes", "write-at-floor", "write-at-ceiling"},
			Assume:   []string{"file/cmd fans have fixed limits 0/255 (the property names a configured/measured minimum only for hwmon fans)", "run-time raises of the minimum are not added to the floor (weaker, sound)", "faults are injected only once regulation has begun, so the swept map equals the driver model's"},
			RealStub: realStubL1,
		},
		PropertyPlan{
			ID: "C02", Level: "exploration",
			Families: []FamilyPlan{{Name: "c02", Quick: 240, Thorough: 8000, Chunk: 10}, {Name: "c02cmd", Quick: 16, Thorough: 400, Chunk: 2}},
			Rule:     "each run = one generated closed loop with neverStop fans (hwmon with configured or curve-derived minimum, file, cmd) through identity read-back so that the request equals the PWM file content at each cycle end; plants with 0-2 rotor-stall episodes (some permanent) or fans that never spin; all algorithms; 30-90 virtual s. Oracle per cycle: request >= reference minimum; at a raise the request is strictly higher; after r raises request >= minimum + r; reported minimum never decreases. distinct = scenario hash; non-trivial = the run contained a stall episode or a raise",
			Probes:   []string{"raise", "raise-with-min>1"},
			Assume:   []string{"requests are observed as PWM file content (identity map, read-back-faithful driver)", "startPwm is never configured without minPwm in this family (the text names the configured minPwm, else the measured one)"},
			RealStub: realStubL1,
		},
		PropertyPlan{
			ID: "C04", Level: "exploration",
			Families: []FamilyPlan{{Name: "c04", Quick: 48, Thorough: 1200, Chunk: 1, SeedTimeout: 600 * time.Second}},
			Rule:     "each run = one batch of 25-80 simulated executions of the real controller for one setting (min,max; curve value c; maxPwmChangePerCycle m; tick 50ms..2s): fresh starts from starting requests {0,255,min,max,random...} for direct, rate-limited and default-PID, one more curve value for monotonicity, and histories (random trajectory; up to 3000 cycles idling at curve 255 / 0) before the curve becomes constant. Relational oracle: settle bound self-calibrated as 5x(max fresh settle time)+50 cycles, steady value independent of start and history, S(0)=min, S(255)=max, monotone in c, equal for direct with/without limit, within 1 for default PID, step bound m and monotone approach. distinct = setting hash; non-trivial = fresh-start executions judged",
			Probes:   []string{"fresh-start-executions", "history-executions:idle-at-255", "history-executions:trajectory", "monotone-pair"},
			Assume:   []string{"requests observed as PWM file content (identity map)", "the fan always reports rotation (no stall raises interfere)", "idle histories are capped at 3000 cycles per execution in this tier", "starting requests are sampled (4 fixed + random), not all 256"},
			RealStub: realStubL1,
		},
		PropertyPlan{
			ID: "C06", Level: "exploration",
			Families: []FamilyPlan{{Name: "c06", Quick: 400, Thorough: 20000, Chunk: 20}},
			Rule:     "each run = one generated curve graph (1-6 leaves: linear min<max, step sets of 1-8 points, PID curves with finite gains; 0-6 function curves of all six types over 1-8 members nested to depth 4; PID leaves have one parent) evaluated 20-60 times by a harness task in virtual time: sensor averages from the extreme set (negative, 0, boundaries +-1 m°, 1e300, fractional), PID sensors re-written, seeded virtual gaps 1 ms..5 s. Every reachable curve's value is compared with the reference semantics (exact at saturation, at step points and for aggregates; +-1 inside linear segments and for the PID term; first PID evaluation range-checked only). distinct = scenario hash; non-trivial = more than 5 evaluations judged",
			Probes:   []string{"evaluations", "linear-saturated", "linear-interior", "steps-judged", "pid-judged", "pid-unsaturated", "function-judged", "function-depth>=3"},
			Assume:   []string{"honest scope: for linear and function curves this is reference-model comparison hosted by the simulator; the simulator's clock matters for PID curves only", "coinciding evaluations are separated by >= 1 µs of virtual latency (dt=0 is not manufactured)"},
			RealStub: realStubL1,
		},
		PropertyPlan{
			ID: "C07", Level: "exploration",
			Families: []FamilyPlan{{Name: "c07", Quick: 200, Thorough: 8000, Chunk: 10}, {Name: "c07loop", Quick: 120, Thorough: 4000, Chunk: 10}},
			Rule:     "c07: generated monotone curve graphs (linear min<max, non-decreasing step sets, sum/minimum/maximum/average over such, nested) swept densely (1..100 m° grid; 1 m° sweeps over 12 °C windows, coarser sweeps from -40 to 130 °C; all sensors together or one alone) - the curve value must never drop. c07loop: closed loop with the direct algorithm over a slow temperature ramp (window 1, poll = tick), any fan limits and non-decreasing PWM maps (configured, swept, quantised): curve value and written PWM non-decreasing from cycle to cycle. distinct = scenario hash; non-trivial = curves swept / >20 ramp cycles",
			Probes:   []string{"sweep-evaluations", "function-curves-swept", "ramp-cycles", "curve-steps-up"},
			Assume:   []string{"honest scope: the curve part is a property of pure functions; the closed-loop part (rescale, nearest lookup, write skip) is where running the system matters", "twin-world comparison from the design was replaced by ramps (same relation, simpler)"},
			RealStub: realStubL1,
		},
		PropertyPlan{
			ID: "C08", Level: "exploration",
			Families: []FamilyPlan{{Name: "c08", Quick: 320, Thorough: 12000, Chunk: 10}, {Name: "c08cmd", Quick: 32, Thorough: 800, Chunk: 2}},
			Rule:     "each run = 1-3 sensors (hwmon/file; cmd in its own family) polled by the real sensor monitor for 40-400 polls with window size in {1,2,3,5,10,20,50}; reading programmes with plateaus and jumps incl. negative and int-extreme values; 70% of the runs inject 1-6 read faults (missing/empty/garbage/huge file, EIO, EACCES; command exit!=0, garbage, nan, inf, -inf, empty, timeout, killed) of length 1-20 polls. Oracle after every poll: hull of initial value and successful finite readings, geometric convergence on plateaus, smoothed value bit-identical after a failed or non-finite poll. distinct = scenario hash; non-trivial = more than 10 polls judged",
			Probes:   []string{"good-polls", "failed-polls", "convergence-judged(k>=5)"},
			Assume:   []string{"relative tolerance 1e-12 on the hull and 1e-9 on the convergence bound for floating-point rounding of the update itself; 'unchanged' is exact"},
			RealStub: realStubL1,
		},
		PropertyPlan{
			ID: "C10", Level: "exploration",
			Families: []FamilyPlan{{Name: "c10", Quick: 200, Thorough: 6000, Chunk: 8}, {Name: "c10cmd", Quick: 12, Thorough: 200, Chunk: 1, SeedTimeout: 300 * time.Second}},
			Rule:     "each run = one neverStop fan (hwmon/file/cmd) with RPM input, constant curve value, rpmRollingWindowSize n in {1,2,3,5,10,20,50}; the rotor stalls at a seeded instant after it had been spinning (or it never spins); some stalls end by themselves; some fans have a 0-3 step range so that the maximum is reached. Oracle in counted RPM polls: a raise within 20n+20 polls of continuous 0 RPM, again after every raise; at the maximum with 0 RPM for the same bound: error reported, regulation of that fan stopped, fan restored (C03 predicate). distinct = scenario hash; non-trivial = a stall episode was observed",
			Probes:   []string{"stall-episode", "raise"},
			Assume:   []string{"the constant 20 in the bound 20n+20 is an oracle parameter chosen from the property's wording (tens of polls, not thousands), not from the code", "control cycles run at least as often as RPM polls in this family"},
			RealStub: realStubL1,
		},
		PropertyPlan{
			ID: "C13", Level: "exploration",
			Families: []FamilyPlan{{Name: "c13", Quick: 400, Thorough: 16000, Chunk: 20}, {Name: "c13init", Quick: 48, Thorough: 1500, Chunk: 3}},
			Rule:     "c13: 1-2 hwmon fans started by the real controller with stored curve data generated arbitrarily (sparse, plateaus, non-monotone, fractional, all-zero, single point, empty) x all combinations of configured min/start/max x neverStop; 70% of the runs attach different data to the registered fan once or twice while it runs. c13init: no stored data - the real initialisation sequence measures a fan plant (start threshold, plateau, bumps; quantising drivers) in virtual time and the reference works on what it stored. Oracle through the public getters at every cycle end and after each attach. distinct = scenario hash; non-trivial = limits judged",
			Probes:   []string{"limits-judged", "re-attach-judged", "measured-by-init-sequence", "degenerate-all-zero", "empty-data"},
			Assume:   []string{"all-zero data: only range and configured-wins are asserted", "generated RPM values avoid (0,1) where 'non-zero' and 'whole RPM' disagree", "the measured minimum of a neverStop fan without configured minPwm is not asserted (the text defines none)"},
			RealStub: realStubL1,
		},
		PropertyPlan{
			ID: "C16", Level: "exploration",
			Families: []FamilyPlan{{Name: "c16", Quick: 160, Thorough: 6000, Chunk: 5}},
			Rule:     "each run = 2-4 hwmon fans with an empty database (every fan needs the PWM sweep and the RPM-curve measurement), seeded controller start delays 0-3 s, fan plants with time constants 50 ms..4 s, quantising drivers (6-17 levels); the seeded scheduler interleaves their seam events; 25% of the runs have the option true (control group). Oracle: per fan the interval [first, last] analysis I/O event on the kernel's event sequence; with the option false the intervals are pairwise disjoint. distinct = scenario hash; every run is non-trivial (>= 2 fans analysed, else exit 2)",
			Probes:   []string{"serial-run", "overlap-observed-with-option-true"},
			Assume:   []string{"an analysis is delimited by its first and last file operation issued from the PWM sweep or the initialisation sequence"},
			RealStub: realStubL1,
		},
		PropertyPlan{
			ID: "C03", Level: "exploration",
			Families: []FamilyPlan{{Name: "c03", Quick: 240, Thorough: 8000, Chunk: 4, SeedTimeout: 150 * time.Second}},
			Rule:     "each run = one OS process running the real program (cobra root command, YAML loading, validation, RunDaemon with its actor group) in a bubble: 1-2 fans (hwmon with original mode 0/1/2/3/5 and original PWM 0..254, with/without enable file; file; cmd), 20% through the real analysis; 1-3 SIGTERM/SIGINT deliveries injected with os/signal's non-blocking-send semantics during start-up wait, analysis, first-second delay, between ticks, at a decision index inside a cycle, at the same instant, and after the Nth restore write; 45% of the runs make restore-phase mode/PWM writes fail (EINVAL, EIO) or be silently ignored, 8% have a stuck mode. Oracle after the process ended: orderly exit (no Go panic, no signal-delivery panic, ends within 60 virtual s) and per touched fan (mode==original and original!=1) or PWM file==255. distinct = scenario hash; non-trivial = at least one touched fan judged",
			Probes:   []string{"fans-judged", "multi-signal-run", "signals-injected"},
			Assume:   []string{"a run in which every attempted write of 255 was itself made to fail by the fault plan is not judged", "signal delivery is modelled by the hook with os/signal's select-send semantics incl. the panic on a closed, still registered channel", "signals arriving before the daemon registered its channel are not judged"},
			RealStub: "real: cmd (cobra root command), configuration loading via viper from generated YAML, Validate, internal.RunDaemon incl. actor group and signal actor, hwmon discovery, controllers, monitors, persistence; stub/model: libsensors (stand-in), drivers/fans/temperatures (world), clock (synctest), scheduling at seams (kernel), OS signal delivery (hook), TCP servers disabled",
		},
		PropertyPlan{
			ID: "C09", Level: "fault_enumeration",
			Families: []FamilyPlan{{Name: "c09", Quick: 352, Thorough: 3519, Chunk: 4, SeedTimeout: 150 * time.Second, DeathProperty: "C09"}, {Name: "c09pairs", Quick: 64, Thorough: 2500, Chunk: 4, SeedTimeout: 150 * time.Second, DeathProperty: "C09"}},
			Rule:     "fixed enumeration of 3519 single faults = for each of the 27 combinations fan backend (hwmon/file/cmd) x sensor backend (hwmon/file/cmd) x curve type (linear, PID, function nested over linear+PID): component (sensor read by monitor / by curve evaluation / first read; fan PWM read at start-up, in the cycle, in the RPM monitor; RPM read; PWM write; mode write/read; get/set/rpm commands) x kind (EIO, missing, empty, garbage, huge; write error, EINVAL, ignored; command exit!=0 with/without output, garbage, nan, empty, timeout, not executable, bad format, vanished, killed) x position (1st, 2nd, a later occurrence). Each fault is injected into the real daemon (own process, 12 virtual s, second bystander fan). quick covers a window of the enumeration selected by VERIF_SEED, thorough covers all 3519 singles; pairs are sampled. Oracle: no Go panic / unrequested exit without restore; every fan still regulated at the end or stopped and restored. distinct = scenario hash; non-trivial = the planned fault actually fired",
			Probes:   []string{"faults-fired", "fan-still-regulated"},
			Assume:   []string{"an orderly shutdown of the whole daemon that restores every fan counts as 'stops regulating after restoring' (weaker reading)", "thorough: exhaustive over the listed single-fault space only"},
			RealStub: "real: cmd (cobra root command), YAML loading, Validate, RunDaemon actor group, hwmon discovery, controllers, monitors, curves, sensors, fans, persistence, util.SafeCmdExecution with real child processes; stub/model: libsensors stand-in, drivers/fans/temperatures (world), clock (synctest), scheduling at seams (kernel); EIO/EINVAL/timeout are returned by the seam, all other faults are produced on the real file or script",
		},
		PropertyPlan{
			ID: "C11", Level: "exploration",
			Families: []FamilyPlan{{Name: "c11", Quick: 320, Thorough: 12000, Chunk: 4, SeedTimeout: 200 * time.Second}},
			Rule:     "each run = one generated YAML document (1-4 sensors, 1-8 curves incl. nested function curves over a DAG, 1-3 fans over a pool of real file/hwmon/cmd devices; both spellings of controlAlgorithm, step lists as list-of-maps and as map, pwmMap, limits). 35% are assembled from documented forms only; the others carry seeded defects (duplicate/missing ids, 0 or 2 backends, dangling sensor/curve references, self references, planted cycles of length 1..n, unsupported function type, function with no/omitted members, empty step list/map, controlAlgorithm: {}, zero gains, maxPwmChangePerCycle 0, pwmMap: {}). The text goes through the real `fan2go config validate` (own process); an independent validator over the YAML text (yaml.v3) decides well-formedness; accepted documents are booted by the real daemon (own process, 9 virtual s) with every registered curve evaluated under 6 sensor states. distinct = scenario hash; every document is non-trivial",
			Probes:   []string{"accepted", "rejected", "accepted-and-booted", "documented-forms-documents", "curves-swept"},
			Assume:   []string{"devices named by hwmon entries exist in the fake tree (binding failures are C17's subject)", "a decode failure that ends `config validate` with a panic trace counts as a rejection"},
			RealStub: "real: cobra commands `config validate` and the root command, viper/mapstructure decoding, Validate, InitializeObjects, RunDaemon, curves, controllers; stub/model: libsensors stand-in, world devices, clock, scheduling at seams; the spec validator is the harness's own (yaml.v3)",
		},
		PropertyPlan{
			ID: "C15", Level: "exploration",
			Families: []FamilyPlan{{Name: "c15", Quick: 64, Thorough: 3000, Chunk: 2, SeedTimeout: 900 * time.Second}},
			Rule:     "each run = a history of 3-6 incarnations of the real program over one world directory in which only the database survives: daemon starts (each ended by an injected SIGTERM after the analysis had time to finish), `fan reset`, `fan init` (the real cobra commands, each its own process), for one hwmon/file/cmd fan behind a quantising driver with 9-17 levels, with/without a configured pwmMap, with/without configured minPwm+maxPwm. Oracle per daemon start from the journal of PWM writes before the first control cycle: no sweep with a configured map; neither sweep nor measurement and start-up within the fixed waits + 5 s once data was stored and not discarded; no measurement with min+max configured; and the analysis does happen again after reset (vacuity guard). distinct = scenario hash; every history is non-trivial",
			Probes:   []string{"judged:restart-with-stored-data", "judged:configured-map", "analysis-observed", "incarnations:reset", "incarnations:init"},
			Assume:   []string{"a sweep is >= 8 PWM writes issued from the automatic PWM-map computation, a measurement >= 3 writes issued from the initialisation sequence outside the sweep"},
			RealStub: "real: cobra commands (root, fan init, fan reset), YAML loading, RunDaemon, controllers, persistence (bbolt file surviving between processes); stub/model: libsensors stand-in, world devices, clock, scheduling, signal delivery",
		},
		PropertyPlan{
			ID: "C17", Level: "exploration",
			Families: []FamilyPlan{{Name: "c17", Quick: 160, Thorough: 6000, Chunk: 3, SeedTimeout: 300 * time.Second}},
			Rule:     "each run = one generated fake hwmon tree (1-4 chips with names from a pool incl. near-duplicates, bus types isa/pci/virtual/acpi, fans and temperature inputs on arbitrary channels 1..7, unused devices besides the configured ones) and a YAML document whose hwmon entries select devices by a platform pattern matching exactly one chip (full string, prefix, upper case, regex) plus index or rpmChannel, explicit or defaulted pwmChannel; 30% name one non-existing device (unknown platform, index or channel out of range, for a fan or a sensor). The real daemon runs it in 3 processes with 3 seeded enumeration orders of the chips. Oracle: per entry the files its own goroutines read/write (grouped by goroutine id from the tick events) equal the reference binding computed from tree + selector, nothing else is touched, bindings agree across orders; a missing device must end start-up with an error naming the entry, no runtime-error panic, no device written. distinct = scenario hash; non-trivial = bindings judged or a missing-device document",
			Probes:   []string{"bindings-judged", "missing-device-documents", "enumeration-orders-run"},
			Assume:   []string{"trusted base: the stand-in's feature ordering (by type, then channel) matches libsensors, which defines what 'index' means", "a start-up failure announced through ui.Fatal (message, then panic trace) before any device was written counts as a clean failure if the message names the entry; a Go runtime-error panic does not"},
			RealStub: "real: internal/hwmon discovery and matching, internal/backend.go sensor binding, cobra root command, RunDaemon, controllers; stub/model: libsensors (pure-Go stand-in enumerating the fake tree in a seeded order), world devices, clock, scheduling",
		},
		PropertyPlan{
			ID: "C14", Level: "fault_enumeration",
			Families: []FamilyPlan{{Name: "c14", Quick: 400, Thorough: 20000, Chunk: 25}, {Name: "c14crash", Quick: 48, Thorough: 1500, Chunk: 1, SeedTimeout: 600 * time.Second}},
			Rule:     "c14: seeded sequences of 5-60 save/load/delete/corrupt operations of both kinds over 3 fan ids (arbitrary maps: empty, negative and out-of-range keys, fractional, huge, denormal and negative-zero values, 256 entries) through the real persistence code (which reopens the bbolt file for every operation), compared with an in-memory model after every step by reading back ALL six entries. c14crash: for a seeded sequence of 1-7 operations a worker process is killed with SIGKILL (strace syscall injection) at the k-th pwrite64 and at the k-th fdatasync for EVERY k the sequence issues; a fresh process reads everything back: acknowledged operations visible, the in-flight one entirely or not at all, other entries untouched. distinct = scenario hash; non-trivial = steps judged / at least one crash point judged",
			Probes:   []string{"steps-judged", "ops:corrupt", "delete-of-absent-entry", "crash-points-judged", "in-flight-op-applied", "in-flight-op-not-applied"},
			Assume:   []string{"process kill, not power loss: completed writes survive, a single pwrite is not torn", "crash points are enumerated exhaustively per generated sequence; the sequences themselves are sampled", "concurrent clients are not explored: the persistence operations contain no seam, so the simulator cannot interleave inside them; cross-process exclusion is bbolt's file lock"},
			RealStub: "real: internal/persistence, bbolt on tmpfs, real processes killed by a real SIGKILL at a syscall chosen by strace injection; no simulated clock or scheduler is involved in this property (L0/L3)",
		},
		PropertyPlan{
			ID: "C18", Level: "exploration",
			Families: []FamilyPlan{{Name: "c18walk", Quick: 8, Thorough: 16, Chunk: 1, SeedTimeout: 300 * time.Second}, {Name: "c18loop", Quick: 64, Thorough: 2000, Chunk: 4}},
			Rule:     "c18walk: as root the harness walks one executable (and one configuration file) through owner {root, other} x group {root, other} x all 512 permission modes x {direct path, symlink} with real chown/chmod, visiting points in a seeded order so that consecutive calls see unrelated attributes; at every point the real cmd sensor, cmd fan or configuration validation is called and the command's side-effect marker is compared with the reference predicate (owner root, not group-writable unless group root, not other-writable) and the file's execute bits. quick: 8 x 256 seeded sample points; thorough: 16 blocks x 256 = all 4096 points (the attribute sub-space is enumerated completely). c18loop: a closed loop with cmd sensor and cmd fan whose four scripts' owner/group/mode are flipped 2-8 times by environment events between executions; every exec event is judged against the attributes in force at its permission check. distinct = scenario hash",
			Probes:   []string{"executions-judged", "config-file-rule-judged", "allowed-points", "rejected-points", "loop-executions-judged", "loop-rejections"},
			Assume:   []string{"the harness runs as root", "flips never land between the permission check and the start of the same execution (that window is inherent to check-then-exec)", "thorough enumerates the attribute sub-space completely; the order and call-site assignment are seeded"},
			RealStub: "real: util.CheckFilePermissionsForExecution, util.SafeCmdExecution, sensors.CmdSensor, fans.CmdFan, configuration.Validate, real chown/chmod/symlink and real child processes; c18loop adds the L1 simulator (clock, scheduler) around them",
		},
		PropertyPlan{
			ID: "C19", Level: "fault_enumeration",
			Families: []FamilyPlan{{Name: "c19sim", Quick: 96, Thorough: 1600, Chunk: 4, SeedTimeout: 150 * time.Second, DeathProperty: "C19"}, {Name: "rt.c19", Quick: 64, Thorough: 256, Chunk: 1, SeedTimeout: 60 * time.Second, DeathProperty: "C19"}},
			Rule:     "c19sim: the command faults of the C09 enumeration (exit!=0 with/without output, garbage, nan, empty, injected timeout, not executable, bad format, vanished between permission check and start, killed) x 27 backend/curve combinations x positions, injected into the running daemon under the simulator: no panic, the loop continues or the fan is restored. rt.c19: util.SafeCmdExecution on the REAL clock, 16 failure modes (ok, trailing newlines, exit 3 with output, silent exit 1, killed by signal, not executable, bad format, missing, sleeper 3x timeout, sleeper ignoring SIGTERM, grandchild holding stdout for 3x timeout, grandchild + sleeper, empty / garbage / 3 MB output, 2 MB stderr) x timeouts {0.2, 0.5, 1, 2 s} = 64 cases enumerated by seed: returns within timeout + 1.5 s with an error or the trimmed output. distinct = scenario hash; quick covers all 64 real-time cases once",
			Probes:   []string{"calls-judged", "faults-fired"},
			Assume:   []string{"the time bound is decided on the real clock with a 1.5 s margin (stated limit of the technique: a simulated deadline cannot fire while a real child runs)", "rt cases run 16 at a time; the margin absorbs scheduling noise"},
			RealStub: "real: util.SafeCmdExecution, os/exec, real child and grandchild processes, real clock (rt.c19); c19sim: as C09",
		},
		PropertyPlan{
			ID: "C12", Level: "exploration",
			Families: []FamilyPlan{{Name: "c12", Quick: 240, Thorough: 8000, Chunk: 10}},
			Rule:     "each run = closed loop with full-range fans (min 0, max 255) and the direct algorithm, where the request equals the curve value; maps from the configuration (sparse, plateaus) or from the real sweep against a quantising driver; every cycle compares the write (or the decision not to write) with the reference nearest-supported-input computation. distinct = scenario hash; non-trivial = at least one write judged",
			Probes:   []string{"c12-writes-judged", "c12-skips-judged", "c12-tie"},
			Assume:   []string{"requests outside 0..255 are unreachable through the running system and not covered", "the request is taken to be the curve value (full-range fan, direct algorithm, C06 checks the curve value)"},
			RealStub: realStubL1,
		},
	)
}

var _ = time.Second
