package main

import "time"

const realStubL1 = "real: internal/{controller,control_loop,curves,sensors,fans,persistence,configuration,hwmon,util,ui}, internal/monitor.go, InitializeObjects of internal/backend.go, bbolt, oklog/run; stub/model: libsensors (pure-Go gosensors stand-in over a fake hwmon tree), kernel hwmon drivers + fans + temperatures (world model on tmpfs), clock (testing/synctest fake clock), goroutine scheduling at seams (seeded kernel), signals/cancellation (context cancel by the harness), actor wiring of RunDaemon (replicated by the harness in L1 families)"

var plans = []PropertyPlan{
	{
		ID: "C05", Level: "exploration",
		Families: []FamilyPlan{{Name: "c05", Quick: 160, Thorough: 6000, Chunk: 10}},
		Rule: "each run = one generated L1 scenario (1-2 hwmon fans; identity / sparse config / idempotent-quantiser PWM map; direct, rate-limited or PID algorithm; piecewise-constant temperatures; 0-6 third-party mode/PWM writes placed by virtual time or by decision index, incl. inside a cycle) executed by the real controller under the seeded scheduler. distinct = distinct scenario hash; non-trivial = at least one interference was judged against the following full cycle, or the run was a quiet run judged on the zero-count clause",
		Probes:   []string{"interference-judged", "count-once-clause", "quiet-run", "interference-inside-cycle"},
		Assume:   []string{"third-party writes go through the same driver model as fan2go's (quantised)", "in-cycle interference is only required to be undone and counted at most once"},
		RealStub: realStubL1,
	},
}

var _ = time.Second
