module github.com/markusressel/fan2go/zverif

go 1.26

require (
	github.com/markusressel/fan2go v0.0.0
	github.com/prometheus/client_golang v1.22.0
	github.com/pterm/pterm v0.12.79
	go.etcd.io/bbolt v1.4.0
	gopkg.in/yaml.v3 v3.0.1
)

require (
	atomicgo.dev/cursor v0.2.0 // indirect
	atomicgo.dev/keyboard v0.2.9 // indirect
	atomicgo.dev/schedule v0.1.0 // indirect
	github.com/anishathalye/porcupine v1.3.0
	github.com/asecurityteam/rolling v2.0.4+incompatible // indirect
	github.com/beorn7/perks v1.0.1 // indirect
	github.com/cespare/xxhash/v2 v2.3.0 // indirect
	github.com/containerd/console v1.0.4 // indirect
	github.com/fsnotify/fsnotify v1.8.0 // indirect
	github.com/go-viper/mapstructure/v2 v2.2.1 // indirect
	github.com/gookit/color v1.5.4 // indirect
	github.com/guptarohit/asciigraph v0.7.3 // indirect
	github.com/labstack/echo-contrib v0.17.3 // indirect
	github.com/labstack/echo/v4 v4.13.3 // indirect
	github.com/labstack/gommon v0.4.2 // indirect
	github.com/lithammer/fuzzysearch v1.1.8 // indirect
	github.com/looplab/tarjan v0.1.0 // indirect
	github.com/mattn/go-colorable v0.1.14 // indirect
	github.com/mattn/go-isatty v0.0.20 // indirect
	github.com/mattn/go-runewidth v0.0.16 // indirect
	github.com/md14454/gosensors v0.0.0-20180726083412-bded752ab001 // indirect
	github.com/mgutz/ansi v0.0.0-20200706080929-d51e80ef957d // indirect
	github.com/mitchellh/go-homedir v1.1.0 // indirect
	github.com/mitchellh/mapstructure v1.5.0 // indirect
	github.com/munnerz/goautoneg v0.0.0-20191010083416-a7dc8b61c822 // indirect
	github.com/natefinch/atomic v1.0.1 // indirect
	github.com/oklog/run v1.1.0 // indirect
	github.com/orcaman/concurrent-map/v2 v2.0.1 // indirect
	github.com/pelletier/go-toml/v2 v2.2.3 // indirect
	github.com/prometheus/client_model v0.6.1 // indirect
	github.com/prometheus/common v0.63.0 // indirect
	github.com/prometheus/procfs v0.16.0 // indirect
	github.com/qdm12/reprint v0.0.0-20200326205758-722754a53494 // indirect
	github.com/rivo/uniseg v0.4.7 // indirect
	github.com/sagikazarmark/locafero v0.7.0 // indirect
	github.com/sourcegraph/conc v0.3.0 // indirect
	github.com/spf13/afero v1.12.0 // indirect
	github.com/spf13/cast v1.7.1 // indirect
	github.com/spf13/cobra v1.9.1 // indirect
	github.com/spf13/pflag v1.0.6 // indirect
	github.com/spf13/viper v1.20.1
	github.com/subosito/gotenv v1.6.0 // indirect
	github.com/tomlazar/table v0.1.2 // indirect
	github.com/valyala/bytebufferpool v1.0.0 // indirect
	github.com/valyala/fasttemplate v1.2.2 // indirect
	github.com/xo/terminfo v0.0.0-20220910002029-abceb7e1c41e // indirect
	golang.org/x/crypto v0.36.0 // indirect
	golang.org/x/exp v0.0.0-20240909161429-701f63a606c0 // indirect
	golang.org/x/net v0.38.0 // indirect
	golang.org/x/sys v0.31.0 // indirect
	golang.org/x/term v0.30.0 // indirect
	golang.org/x/text v0.23.0 // indirect
	golang.org/x/time v0.11.0 // indirect
	google.golang.org/protobuf v1.36.5 // indirect
)

replace github.com/markusressel/fan2go => /repo

replace github.com/md14454/gosensors => ./gosensors
