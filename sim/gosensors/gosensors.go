// Package gosensors is a pure-Go stand-in for github.com/md14454/gosensors
// (cgo binding of libsensors), used only by the verification harness. It
// enumerates a fake hwmon tree:
//
//	$VERIF_HWMON_ROOT/<chipdir>/{name,fanN_input,fanN_min,fanN_max,tempN_input,tempN_min,tempN_max,...}
//
// Chips are reported in the order listed in $VERIF_HWMON_ROOT/ORDER (one chip
// directory name per line; the simulator writes a seeded permutation there),
// or in lexical order when that file is missing. Per chip, features are
// reported as libsensors does: grouped by type (in, fan, temp) and ascending
// channel number within a type.
package gosensors

import (
	"os"
	"path/filepath"
	"regexp"
	"sort"
	"strconv"
	"strings"
)

type SubFeatureType int32

// Values follow sensors/sensors.h.
const (
	SubFeatureTypeFanInput SubFeatureType = 1 << 8
	SubFeatureTypeFanMin   SubFeatureType = 1<<8 + 1
	SubFeatureTypeFanMax   SubFeatureType = 1<<8 + 2

	SubFeatureTypeTempInput SubFeatureType = 2 << 8
	SubFeatureTypeTempMax   SubFeatureType = 2<<8 + 1
	SubFeatureTypeTempMin   SubFeatureType = 2<<8 + 3
)

type FeatureType int32

const (
	FeatureTypeIn   FeatureType = 0
	FeatureTypeFan  FeatureType = 1
	FeatureTypeTemp FeatureType = 2
)

type SubFeature struct {
	Name    string
	Number  int32
	Type    SubFeatureType
	Mapping int32
	Flags   uint32
	path    string
	scale   float64
}

func (s SubFeature) GetValue() float64 {
	data, err := os.ReadFile(s.path)
	if err != nil {
		return 0
	}
	v, err := strconv.ParseFloat(strings.TrimSpace(string(data)), 64)
	if err != nil {
		return 0
	}
	return v / s.scale
}

type Feature struct {
	Name   string
	Number int32
	Type   FeatureType
	subs   []SubFeature
}

func (f Feature) GetSubFeatures() []SubFeature { return f.subs }

func (f Feature) GetLabel() string { return f.Name }

func (f Feature) GetValue() float64 { return f.subs[0].GetValue() }

type Bus struct {
	Type int16
	Nr   int16
}

func (b Bus) String() string { return "sim" }

type Chip struct {
	Prefix string
	Bus    Bus
	Addr   int32
	Path   string
}

func (c Chip) String() string      { return c.Prefix }
func (c Chip) AdapterName() string { return c.Bus.String() }

var fileRe = regexp.MustCompile(`^(fan|temp)([0-9]+)_(input|min|max)$`)

func (c Chip) GetFeatures() []Feature {
	entries, err := os.ReadDir(c.Path)
	if err != nil {
		return nil
	}
	type key struct {
		t FeatureType
		n int
	}
	feats := map[key]*Feature{}
	for _, e := range entries {
		m := fileRe.FindStringSubmatch(e.Name())
		if m == nil {
			continue
		}
		n, _ := strconv.Atoi(m[2])
		var ft FeatureType
		var st SubFeatureType
		scale := 1.0
		if m[1] == "fan" {
			ft = FeatureTypeFan
			switch m[3] {
			case "input":
				st = SubFeatureTypeFanInput
			case "min":
				st = SubFeatureTypeFanMin
			case "max":
				st = SubFeatureTypeFanMax
			}
		} else {
			ft = FeatureTypeTemp
			scale = 1000.0
			switch m[3] {
			case "input":
				st = SubFeatureTypeTempInput
			case "min":
				st = SubFeatureTypeTempMin
			case "max":
				st = SubFeatureTypeTempMax
			}
		}
		k := key{ft, n}
		f := feats[k]
		if f == nil {
			f = &Feature{Name: m[1] + m[2], Type: ft}
			feats[k] = f
		}
		f.subs = append(f.subs, SubFeature{Name: e.Name(), Type: st, path: filepath.Join(c.Path, e.Name()), scale: scale})
	}
	keys := make([]key, 0, len(feats))
	for k := range feats {
		keys = append(keys, k)
	}
	sort.Slice(keys, func(i, j int) bool {
		if keys[i].t != keys[j].t {
			return keys[i].t < keys[j].t
		}
		return keys[i].n < keys[j].n
	})
	var out []Feature
	for i, k := range keys {
		f := feats[k]
		sort.Slice(f.subs, func(a, b int) bool { return f.subs[a].Type < f.subs[b].Type })
		f.Number = int32(i)
		for j := range f.subs {
			f.subs[j].Number = int32(i*16 + j)
		}
		out = append(out, *f)
	}
	return out
}

func Init()    {}
func Cleanup() {}

// GetDetectedChips enumerates the fake tree.
func GetDetectedChips() []Chip {
	root := os.Getenv("VERIF_HWMON_ROOT")
	if root == "" {
		return nil
	}
	var names []string
	if data, err := os.ReadFile(filepath.Join(root, "ORDER")); err == nil {
		for _, l := range strings.Split(string(data), "\n") {
			if l = strings.TrimSpace(l); l != "" {
				names = append(names, l)
			}
		}
	} else {
		entries, _ := os.ReadDir(root)
		for _, e := range entries {
			if e.IsDir() {
				names = append(names, e.Name())
			}
		}
		sort.Strings(names)
	}
	var chips []Chip
	for _, n := range names {
		p := filepath.Join(root, n)
		prefix := ""
		if data, err := os.ReadFile(filepath.Join(p, "name")); err == nil {
			prefix = strings.TrimSpace(string(data))
		}
		bus := Bus{Type: 1, Nr: 0}
		addr := int32(0)
		if data, err := os.ReadFile(filepath.Join(p, "BUS")); err == nil {
			// "<type> <nr> <addr>"
			parts := strings.Fields(string(data))
			if len(parts) == 3 {
				t, _ := strconv.Atoi(parts[0])
				nr, _ := strconv.Atoi(parts[1])
				a, _ := strconv.ParseInt(parts[2], 0, 32)
				bus = Bus{Type: int16(t), Nr: int16(nr)}
				addr = int32(a)
			}
		}
		chips = append(chips, Chip{Prefix: prefix, Bus: bus, Addr: addr, Path: p})
	}
	return chips
}
