// Package kernel is the seeded cooperative scheduler of the simulation. It
// runs inside a testing/synctest bubble: the bubble supplies the fake clock
// and quiescence detection (synctest.Wait), the kernel decides which of the
// goroutines parked at a seam proceeds next. One goroutine runs at a time
// between two seam points; the choice is drawn from a PRNG seeded from the
// scenario, so a (scenario, seed) pair is one exactly repeatable execution.
package kernel

import (
	"encoding/json"
	"fmt"
	"hash/fnv"
	"runtime"
	"sort"
	"strconv"
	"strings"
	"sync"
	"sync/atomic"
	"testing/synctest"
	"time"
)

// Event is one scheduling decision: a goroutine parked at a seam was released.
type Event struct {
	Seq     int           `json:"seq"`
	PSeq    int           `json:"pseq"`           // number of decisions already taken when the goroutine parked
	T       time.Duration `json:"t"`              // virtual time since the kernel started
	Kind    string        `json:"kind"`           // read | write | exec | yield | lock | env | task
	Site    string        `json:"site"`           // file path, executable, yield site, env name
	ID      string        `json:"id,omitempty"`   // fan / sensor id for yield sites
	Actor   uint64        `json:"actor"`          // hash of the call stack (stable goroutine identity)
	G       uint64        `json:"g,omitempty"`    // goroutine id (groups events of one goroutine within a run; not part of keys or hashes)
	Flags   Flags         `json:"flags"`          // classification of the call stack
	NParked int           `json:"np"`             // number of candidates at the decision
	Val     int           `json:"val,omitempty"`  // value read / written
	Args    []string      `json:"args,omitempty"` // exec arguments
	Out     string        `json:"out,omitempty"`  // exec output
	Err     string        `json:"err,omitempty"`  // error of the operation ("" = success)
	Fault   string        `json:"fault,omitempty"`
	Done    bool          `json:"-"`
	Sample  any           `json:"sample,omitempty"`
	key     string
}

// Flags classify the call stack of a seam call (a harness convenience: which
// repository activity issued the operation).
type Flags uint32

const (
	FUpdate      Flags = 1 << iota // inside UpdateFanSpeed (regulating)
	FRestore                       // inside restorePwmEnabled
	FInitSeq                       // inside RunInitializationSequence
	FPwmMapSweep                   // inside computePwmMapAutomatically
	FMeasureRpm                    // inside measureRpm
	FThirdParty                    // inside ensureNoThirdPartyIsMessingWithUs
	FSetPwm                        // inside controller setPwm
	FManual                        // inside trySetManualPwm
	FSupports                      // inside a Supports() probe
	FSensorMon                     // inside sensor monitor updateSensor
	FCurveEval                     // inside a curve Evaluate
	FRunStart                      // inside controller Run before the loops (start-up)
	FSettle                        // inside waitForFanToSettle
	FCollector                     // inside a statistics collector / api handler
	FComputeMap                    // inside computePwmMap
	FCalcTarget                    // inside calculateTargetPwm
)

var flagNames = []struct {
	f    Flags
	name string
}{
	{FUpdate, "upd"}, {FRestore, "restore"}, {FInitSeq, "initseq"}, {FPwmMapSweep, "sweep"},
	{FMeasureRpm, "rpm"}, {FThirdParty, "3rd"}, {FSetPwm, "setpwm"}, {FManual, "manual"},
	{FSupports, "supports"}, {FSensorMon, "mon"}, {FCurveEval, "curve"}, {FRunStart, "start"},
	{FSettle, "settle"}, {FCollector, "client"}, {FComputeMap, "map"}, {FCalcTarget, "calc"},
}

func (f Flags) String() string {
	var parts []string
	for _, n := range flagNames {
		if f&n.f != 0 {
			parts = append(parts, n.name)
		}
	}
	return strings.Join(parts, "+")
}

func (f Flags) MarshalJSON() ([]byte, error) { return []byte(`"` + f.String() + `"`), nil }

type waiter struct {
	ev       *Event
	ch       chan struct{}
	eligible func() bool
	arrival  int
}

// Consumer receives every completed event, in order, at a quiescent point.
type Consumer func(ev *Event)

type Kernel struct {
	// parkCh carries parking goroutines to the kernel. It is the only visible
	// synchronisation between a parking goroutine and the kernel (edge: parker
	// → kernel); the release (kernel → parker) is hidden from the race detector,
	// so the scheduler's hand-offs create no happens-before edge between two
	// goroutines of the system under test. The buffer is large because a send
	// on a buffered channel also acquires what the receiver of the same slot
	// released one buffer-length earlier.
	parkCh   chan *waiter
	parked   []*waiter // kernel goroutine only
	arrivals int       // kernel goroutine only
	seqA     atomic.Int64
	haltedA  atomic.Bool
	stopA    atomic.Bool
	start    time.Time
	rng      *Rand
	// FirstCandidate replaces the seeded choice by "lowest key" (used by the
	// shrinker to simplify schedules).
	FirstCandidate bool
	consumers      []Consumer
	journal        []*Event
	KeepJournal    bool
	seq            int
	pending        *Event // released, not yet delivered to consumers
	hash           uint64
	halted         bool
	stopReq        bool
	seqActions     map[int][]seqAction
	condActions    []*condAction
	Stats          Stats
	interleave     uint64
	current        *Event
	tasks          int
	// StripPrefix is removed from sites/ids in keys and hashes (world directory).
	StripPrefix string
	// StripPrefix2: a second directory whose name varies from process to process (scratch below $HOME)
	StripPrefix2 string
	// MaxEvents caps the number of decisions (watchdog against livelock).
	MaxEvents int
	// StopWhenIdle makes Run return "idle" at the first quiescent point at which no goroutine is parked.
	StopWhenIdle bool
}

type seqAction struct {
	name string
	fn   func()
}

type condAction struct {
	name string
	pred func(next *Event) bool
	fn   func()
	done bool
	// repeat: fires at every quiescent point whose last delivered event satisfies pred (once per event)
	repeat  bool
	lastSeq int
}

type Stats struct {
	Events        int
	MaxParked     int
	MultiChoice   int // decisions with more than one candidate
	EnvEvents     int
	VirtualTime   time.Duration
	InterleavHash uint64
}

// rel strips the per-process world directory from paths so that keys and
// hashes do not depend on the pid.
func (k *Kernel) Rel(s string) string { return k.rel(s) }

func (k *Kernel) rel(s string) string {
	if k.StripPrefix != "" && strings.HasPrefix(s, k.StripPrefix) {
		return s[len(k.StripPrefix):]
	}
	if k.StripPrefix2 != "" && strings.HasPrefix(s, k.StripPrefix2) {
		return "~/" + s[len(k.StripPrefix2):]
	}
	return s
}

// New must be called inside the bubble.
func New(seed uint64) *Kernel {
	return &Kernel{
		parkCh:     make(chan *waiter, 1<<16),
		start:      time.Now(),
		rng:        NewRand(seed, "schedule"),
		hash:       1469598103934665603,
		interleave: 1469598103934665603,
		seqActions: map[int][]seqAction{},
		MaxEvents:  5_000_000,
	}
}

func (k *Kernel) Now() time.Duration { return time.Since(k.start) }

func (k *Kernel) AddConsumer(c Consumer) { k.consumers = append(k.consumers, c) }

// Journal returns the retained events (KeepJournal).
func (k *Kernel) Journal() []*Event { return k.journal }

// Hash is the running hash over all delivered events: the determinism witness.
func (k *Kernel) Hash() uint64 { return k.hash }

// Current returns the event whose goroutine is running now (released last).
func (k *Kernel) Current() *Event { return k.current }

// Seq is the number of decisions taken so far.
func (k *Kernel) Seq() int { return k.seq }

// AtSeq runs fn inside the kernel, as an environment event of its own, right
// before decision number n is taken (the whole system is quiescent then).
func (k *Kernel) AtSeq(n int, name string, fn func()) {
	k.seqActions[n] = append(k.seqActions[n], seqAction{name, fn})
}

// When runs fn once, inside the kernel, at the first quiescent point at which
// pred (evaluated on the last completed event) holds.
func (k *Kernel) When(name string, pred func(last *Event) bool, fn func()) {
	k.condActions = append(k.condActions, &condAction{name: name, pred: pred, fn: fn})
}

// WhenEvery is When without the one-shot limit: fn runs at every quiescent
// point whose last completed event satisfies pred, once per such event.
func (k *Kernel) WhenEvery(name string, pred func(last *Event) bool, fn func()) {
	k.condActions = append(k.condActions, &condAction{name: name, pred: pred, fn: fn, repeat: true, lastSeq: -1})
}

// Halt freezes the world: no goroutine is released any more.
func (k *Kernel) Halt() { k.haltedA.Store(true); k.poke() }

func (k *Kernel) Halted() bool { return k.haltedA.Load() }

// Stop makes Run return at the next quiescent point.
func (k *Kernel) Stop() { k.stopA.Store(true); k.poke() }

func (k *Kernel) poke() {
	select {
	case k.parkCh <- nil:
	default:
	}
}

// Park blocks the calling goroutine at a seam until the kernel releases it.
// eligible (may be nil) is evaluated by the kernel at quiescent points.
func (k *Kernel) Park(ev *Event, eligible func() bool) {
	if ev.key == "" {
		ev.key = ev.Kind + "|" + k.rel(ev.Site) + "|" + k.rel(ev.ID) + "|" + strconv.FormatUint(ev.Actor, 16)
		// two harness tasks running the same code reach the same seam with the same stack: the task's name
		// keeps their events apart (equal keys would be ordered by arrival, which no seed decides)
		g := ev.G
		if g == 0 {
			g = goid()
		}
		if tag, ok := taskTags.Load(g); ok {
			ev.key += "|" + tag.(string)
		}
	}
	raceDisable()
	ev.PSeq = int(k.seqA.Load())
	raceEnable()
	w := &waiter{ev: ev, ch: make(chan struct{}), eligible: eligible}
	k.parkCh <- w
	raceDisable()
	<-w.ch
	raceEnable()
}

// drain moves goroutines that parked meanwhile into the kernel's private list.
func (k *Kernel) drain() {
	for {
		select {
		case w := <-k.parkCh:
			k.admit(w)
		default:
			return
		}
	}
}

func (k *Kernel) admit(w *waiter) {
	if w == nil {
		return
	}
	k.arrivals++
	w.arrival = k.arrivals
	k.parked = append(k.parked, w)
}

// NewEvent builds an event for the calling goroutine, classifying its stack.
// An I/O event also carries the flags of the window its goroutine is in (see NoteYield), so that the
// classification does not hinge on function names alone.
func NewEvent(kind, site, id string, skip int) *Event {
	actor, flags := stackInfo(skip + 1)
	g := goid()
	if kind == "read" || kind == "write" || kind == "exec" || (kind == "yield" && site == "exec.start") {
		if w, ok := windows.Load(g); ok {
			flags |= w.(Flags)
		}
	}
	return &Event{Kind: kind, Site: site, ID: id, Actor: actor, Flags: flags, G: g}
}

// windows: goroutine id -> flags of the activity window the goroutine is in, derived from the yield
// points alone: between ctl.tick and ctl.cycle.end a goroutine performs a control cycle (FUpdate), between
// a cycle's end (or ctl.done) and the next tick whatever it writes is the hand-back (FRestore), between
// rpm.tick and rpm.poll.end it takes an RPM sample, between mon.tick and mon.poll.end it polls a sensor.
var windows sync.Map

// NoteYield is called by the world at every yield point, before the yield event is built.
func NoteYield(site string) {
	var set, clear Flags
	switch site {
	case "ctl.tick":
		set, clear = FUpdate, FRestore
	case "ctl.cycle.end", "ctl.done":
		set, clear = FRestore, FUpdate
	case "ctl.abort":
		set, clear = FRestore, FUpdate|FPwmMapSweep|FInitSeq
	case "ctl.startup":
		// from here to the start of the RPM-curve measurement (or of regulation) every PWM value this
		// goroutine writes belongs to the sweep of the PWM map
		set = FPwmMapSweep
	case "ctl.measure":
		set, clear = FInitSeq, FPwmMapSweep
	case "rpm.tick":
		set = FMeasureRpm
	case "rpm.poll.end", "rpm.done":
		clear = FMeasureRpm
	case "mon.tick":
		set = FSensorMon
	case "mon.poll.end", "mon.done":
		clear = FSensorMon
	default:
		return
	}
	g := goid()
	var cur Flags
	if w, ok := windows.Load(g); ok {
		cur = w.(Flags)
	}
	windows.Store(g, (cur|set)&^clear)
}

// anyWorkWindowOpen: some goroutine is between a tick and the end of the unit of work it started (it may
// be parked, running, or asleep in a simulated latency).
func anyWorkWindowOpen() bool {
	open := false
	windows.Range(func(_, v any) bool {
		if v.(Flags)&(FUpdate|FMeasureRpm|FSensorMon) != 0 {
			open = true
			return false
		}
		return true
	})
	return open
}

// ResetWindows forgets all activity windows (a new world starts).
func ResetWindows() { windows.Clear() }

var exactFlags = map[string]Flags{
	"controller.(*DefaultFanController).UpdateFanSpeed":                    FUpdate,
	"controller.(*DefaultFanController).restorePwmEnabled":                 FRestore,
	"controller.(*DefaultFanController).RunInitializationSequence":         FInitSeq,
	"controller.(*DefaultFanController).computePwmMapAutomatically":        FPwmMapSweep,
	"controller.(*DefaultFanController).computePwmMap":                     FComputeMap,
	"controller.(*DefaultFanController).computePwmMapLocked":               FComputeMap,
	"controller.(*DefaultFanController).measureRpm":                        FMeasureRpm,
	"controller.(*DefaultFanController).ensureNoThirdPartyIsMessingWithUs": FThirdParty,
	"controller.(*DefaultFanController).setPwm":                            FSetPwm,
	"controller.(*DefaultFanController).calculateTargetPwm":                FCalcTarget,
	"controller.(*DefaultFanController).waitForFanToSettle":                FSettle,
	"controller.(*DefaultFanController).Run":                               FRunStart,
	"controller.trySetManualPwm":                                           FManual,
}

const repoPrefix = "github.com/markusressel/fan2go/internal"

func classify(fn string) Flags {
	if !strings.HasPrefix(fn, repoPrefix) {
		return 0
	}
	rest := fn[len(repoPrefix):]
	if rest == ".updateSensor" {
		return FSensorMon
	}
	if !strings.HasPrefix(rest, "/") {
		return 0
	}
	rest = rest[1:]
	if f, ok := exactFlags[rest]; ok {
		return f
	}
	if strings.HasSuffix(rest, ").Supports") {
		return FSupports
	}
	if strings.HasSuffix(rest, ").Evaluate") {
		return FCurveEval
	}
	if strings.HasPrefix(rest, "statistics.") || strings.HasPrefix(rest, "api.") {
		return FCollector
	}
	return 0
}

func stackInfo(skip int) (uint64, Flags) {
	var pcs [64]uintptr
	n := runtime.Callers(skip+1, pcs[:])
	frames := runtime.CallersFrames(pcs[:n])
	h := fnv.New64a()
	var flags Flags
	for {
		fr, more := frames.Next()
		h.Write([]byte(fr.Function))
		h.Write([]byte{0})
		flags |= classify(fr.Function)
		if !more {
			break
		}
	}
	return h.Sum64(), flags
}

func (k *Kernel) deliver(ev *Event) {
	if ev == nil {
		return
	}
	ev.Done = true
	h := fnv.New64a()
	fmt.Fprintf(h, "%d|%d|%s|%d|%s|%s|%s;", ev.Seq, ev.T, ev.key, ev.Val, k.relAll(ev.Err), k.relAll(ev.Out), ev.Fault)
	k.hash = (k.hash ^ h.Sum64()) * 1099511628211
	ih := fnv.New64a()
	fmt.Fprintf(ih, "%s|%s|%s;", ev.Kind, ev.Flags.String(), siteClass(ev))
	k.interleave = (k.interleave ^ ih.Sum64()) * 1099511628211
	for _, c := range k.consumers {
		c(ev)
	}
	if k.KeepJournal {
		k.journal = append(k.journal, ev)
	}
}

func (k *Kernel) relAll(s string) string {
	if k.StripPrefix == "" || s == "" {
		return s
	}
	s = strings.ReplaceAll(s, k.StripPrefix, "")
	if k.StripPrefix2 != "" {
		s = strings.ReplaceAll(s, k.StripPrefix2, "~/")
	}
	return s
}

func siteClass(ev *Event) string {
	if ev.Kind == "yield" || ev.Kind == "env" || ev.Kind == "task" {
		return ev.Site + ":" + ev.ID
	}
	i := strings.LastIndexByte(ev.Site, '/')
	return ev.Site[i+1:]
}

// EnvEvent records an action taken by the environment inside the kernel.
func (k *Kernel) envEvent(name string, fn func()) {
	k.deliverPending()
	ev := &Event{Seq: k.seq, T: k.Now(), Kind: "env", Site: name, key: "env|" + name}
	k.seq++
	k.seqA.Store(int64(k.seq))
	k.Stats.EnvEvents++
	k.current = ev
	fn()
	k.deliver(ev)
}

func (k *Kernel) deliverPending() {
	if k.pending != nil {
		p := k.pending
		k.pending = nil
		k.deliver(p)
	}
}

// Run drives the simulation until virtual time `until` has elapsed, Stop or
// Halt was called, or MaxEvents decisions were taken. It returns the reason.
func (k *Kernel) Run(until time.Duration) string {
	deadline := time.NewTimer(until - k.Now())
	defer deadline.Stop()
	for {
		synctest.Wait()
		k.drain()
		k.deliverPending()
		if k.haltedA.Load() {
			return "halted"
		}
		if k.stopA.Load() {
			k.stopA.Store(false)
			return "stopped"
		}
		if k.seq >= k.MaxEvents {
			return "maxevents"
		}
		if k.StopWhenIdle && len(k.parked) == 0 && !anyWorkWindowOpen() {
			// nobody is inside a unit of work: every loop waits in its select with nothing pending
			k.Stats.VirtualTime = k.Now()
			return "idle"
		}
		// environment actions bound to this decision index / condition
		if acts, ok := k.seqActions[k.seq]; ok {
			delete(k.seqActions, k.seq)
			for _, a := range acts {
				k.envEvent(a.name, a.fn)
			}
			continue
		}
		fired := false
		for _, ca := range k.condActions {
			last := k.lastDelivered()
			if ca.repeat {
				if last == nil || last.Seq == ca.lastSeq {
					continue
				}
				ca.lastSeq = last.Seq // pred sees every event once
			}
			if !ca.done && ca.pred(last) {
				ca.done = !ca.repeat
				k.envEvent(ca.name, ca.fn)
				fired = true
				break
			}
		}
		if fired {
			continue
		}
		var cands []*waiter
		raceDisable()
		for _, w := range k.parked {
			if w.eligible == nil || w.eligible() {
				cands = append(cands, w)
			}
		}
		raceEnable()
		if len(cands) == 0 {
			select {
			case w := <-k.parkCh:
				k.admit(w)
				continue
			case <-deadline.C:
				k.Stats.VirtualTime = k.Now()
				return "horizon"
			}
		}
		if k.Now() >= until {
			k.Stats.VirtualTime = k.Now()
			return "horizon"
		}
		sort.SliceStable(cands, func(i, j int) bool {
			if cands[i].ev.key != cands[j].ev.key {
				return cands[i].ev.key < cands[j].ev.key
			}
			return cands[i].arrival < cands[j].arrival
		})
		idx := 0
		if len(cands) > 1 {
			k.Stats.MultiChoice++
			if !k.FirstCandidate {
				idx = k.rng.Intn(len(cands))
			}
		}
		if len(cands) > k.Stats.MaxParked {
			k.Stats.MaxParked = len(cands)
		}
		w := cands[idx]
		for i, p := range k.parked {
			if p == w {
				k.parked = append(k.parked[:i], k.parked[i+1:]...)
				break
			}
		}
		w.ev.Seq = k.seq
		w.ev.T = k.Now()
		w.ev.NParked = len(cands)
		k.seq++
		k.seqA.Store(int64(k.seq))
		k.Stats.Events++
		k.current = w.ev
		if immediate(w.ev) {
			// nothing more will be recorded on this event: deliver it now, so that
			// a process that exits inside the released segment has journalled it
			k.deliver(w.ev)
		} else {
			k.pending = w.ev
		}
		raceDisable()
		close(w.ch)
		raceEnable()
	}
}

func immediate(ev *Event) bool {
	switch ev.Kind {
	case "lock", "task":
		return true
	case "yield":
		return ev.Site != "exec.start"
	}
	return false
}

// Complete is called by the seam handler when the operation of the event that
// is running now has finished (its result is recorded): the event is
// delivered to the consumers at once instead of at the next quiescent point.
func (k *Kernel) Complete(ev *Event) {
	if ev != nil && k.pending == ev {
		k.pending = nil
		k.deliver(ev)
	}
}

var lastNil = &Event{Seq: -1}

func (k *Kernel) lastDelivered() *Event {
	if k.current != nil {
		return k.current
	}
	return lastNil
}

// Finish delivers the last event and returns the final statistics.
func (k *Kernel) Finish() Stats {
	k.deliverPending()
	k.Stats.VirtualTime = k.Now()
	k.Stats.InterleavHash = k.interleave
	return k.Stats
}

// ParkedCount reports how many goroutines are parked right now.
func (k *Kernel) ParkedCount() int { return len(k.parked) }

// ParkedKeys lists the parked seam keys (diagnostics).
func (k *Kernel) ParkedKeys() []string {
	var out []string
	for _, w := range k.parked {
		out = append(out, w.ev.key)
	}
	sort.Strings(out)
	return out
}

// Go starts a harness task inside the bubble; it parks once before running so
// that its first step is a scheduling decision like any other.
func (k *Kernel) Go(name string, fn func()) {
	go func() {
		g := goid()
		taskTags.Store(g, name)
		defer taskTags.Delete(g)
		k.Park(NewTaskEvent("task", name), nil)
		fn()
	}()
}

// taskTags: goroutine id -> name of the harness task running on it (see Park).
var taskTags sync.Map

// At runs fn as an environment task at virtual time t (relative to kernel start).
func (k *Kernel) At(t time.Duration, name string, fn func()) {
	go func() {
		d := t - k.Now()
		if d > 0 {
			time.Sleep(d)
		}
		k.Park(NewTaskEvent("env", name), nil)
		fn()
	}()
}

// NewTaskEvent builds an event with an explicit name as identity (harness tasks).
func NewTaskEvent(kind, name string) *Event {
	return &Event{Kind: kind, Site: name, key: kind + "|" + name}
}

// Step parks the calling harness task at a named point.
func (k *Kernel) Step(name string) { k.Park(NewTaskEvent("task", name), nil) }

// StepWith parks the calling harness task at a named point, attaching a sample
// (a record the oracles consume when the event is delivered).
func (k *Kernel) StepWith(name string, sample any) {
	ev := NewTaskEvent("task", name)
	ev.Sample = sample
	k.Park(ev, nil)
}

func (f *Flags) UnmarshalJSON(b []byte) error {
	s := strings.Trim(string(b), `"`)
	*f = 0
	if s == "" {
		return nil
	}
	for _, part := range strings.Split(s, "+") {
		for _, n := range flagNames {
			if n.name == part {
				*f |= n.f
			}
		}
	}
	return nil
}

// DecodeEvent parses a journalled event; its Sample stays raw JSON
// (json.RawMessage) for the reader to decode into the type it expects.
func DecodeEvent(b []byte) (*Event, error) {
	type alias Event
	aux := struct {
		*alias
		Sample json.RawMessage `json:"sample"`
	}{alias: (*alias)(&Event{})}
	if err := json.Unmarshal(b, &aux); err != nil {
		return nil, err
	}
	ev := (*Event)(aux.alias)
	if len(aux.Sample) > 0 {
		ev.Sample = aux.Sample
	}
	ev.Done = true
	return ev, nil
}

// goid parses the current goroutine's id from its stack header.
func goid() uint64 {
	var buf [40]byte
	n := runtime.Stack(buf[:], false)
	// "goroutine 123 [running]:..."
	var id uint64
	for i := len("goroutine "); i < n; i++ {
		c := buf[i]
		if c < '0' || c > '9' {
			break
		}
		id = id*10 + uint64(c-'0')
	}
	return id
}
