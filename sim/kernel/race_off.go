//go:build !race

package kernel

const RaceEnabled = false

func raceDisable() {}
func raceEnable()  {}
