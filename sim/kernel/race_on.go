//go:build race

package kernel

import "runtime"

const RaceEnabled = true

func raceDisable() { runtime.RaceDisable() }
func raceEnable()  { runtime.RaceEnable() }
