package kernel

import "hash/fnv"

// Rand is a small deterministic PRNG (splitmix64). Independent streams are
// derived from one seed by name, so that adding draws to one stream does not
// shift another.
type Rand struct{ s uint64 }

func NewRand(seed uint64, stream string) *Rand {
	h := fnv.New64a()
	h.Write([]byte(stream))
	r := &Rand{s: seed ^ (h.Sum64() * 0x9E3779B97F4A7C15)}
	r.Uint64()
	return r
}

func (r *Rand) Uint64() uint64 {
	r.s += 0x9E3779B97F4A7C15
	z := r.s
	z = (z ^ (z >> 30)) * 0xBF58476D1CE4E5B9
	z = (z ^ (z >> 27)) * 0x94D049BB133111EB
	return z ^ (z >> 31)
}

// Intn returns a value in [0,n).
func (r *Rand) Intn(n int) int {
	if n <= 0 {
		return 0
	}
	return int(r.Uint64() % uint64(n))
}

// Range returns a value in [lo,hi].
func (r *Rand) Range(lo, hi int) int {
	if hi <= lo {
		return lo
	}
	return lo + r.Intn(hi-lo+1)
}

func (r *Rand) Float() float64 { return float64(r.Uint64()>>11) / float64(1<<53) }

func (r *Rand) Bool(p float64) bool { return r.Float() < p }

// Pick returns one of the given choices.
func Pick[T any](r *Rand, xs ...T) T { return xs[r.Intn(len(xs))] }

// Hash64 is a stateless hash of a seed and strings/ints, for per-site draws
// that must not depend on the order in which goroutines reach the site.
func Hash64(seed uint64, parts ...string) uint64 {
	h := fnv.New64a()
	var b [8]byte
	for i := 0; i < 8; i++ {
		b[i] = byte(seed >> (8 * i))
	}
	h.Write(b[:])
	for _, p := range parts {
		h.Write([]byte(p))
		h.Write([]byte{0})
	}
	z := h.Sum64()
	z = (z ^ (z >> 30)) * 0xBF58476D1CE4E5B9
	z = (z ^ (z >> 27)) * 0x94D049BB133111EB
	return z ^ (z >> 31)
}
