// Package refmodel holds the small executable reference models the oracles
// compare the system against. They are written from the property texts, not
// from the repository's code.
package refmodel

import (
	"math"
	"sort"
)

// SortedKeys returns the keys of m in ascending order.
func SortedKeys(m map[int]int) []int {
	ks := make([]int, 0, len(m))
	for k := range m {
		ks = append(ks, k)
	}
	sort.Ints(ks)
	return ks
}

// SupportedInputs: the first input of each run of consecutive equal outputs,
// in key order (C12).
func SupportedInputs(m map[int]int) []int {
	ks := SortedKeys(m)
	var out []int
	for i, k := range ks {
		if i == 0 || m[k] != m[ks[i-1]] {
			out = append(out, k)
		}
	}
	return out
}

// Nearest returns the supported inputs nearest to x (two when equidistant).
func Nearest(supported []int, x int) []int {
	if len(supported) == 0 {
		return nil
	}
	best := math.MaxInt
	var out []int
	for _, k := range supported {
		d := k - x
		if d < 0 {
			d = -d
		}
		if d < best {
			best = d
			out = []int{k}
		} else if d == best {
			out = append(out, k)
		}
	}
	return out
}

// AllowedWrites is the set of values that may be written for some request x
// with lo <= x <= hi under map m (C01): { m[k] : k nearest supported of x }.
func AllowedWrites(m map[int]int, lo, hi int) map[int]bool {
	sup := SupportedInputs(m)
	out := map[int]bool{}
	for x := lo; x <= hi; x++ {
		for _, k := range Nearest(sup, x) {
			out[m[k]] = true
		}
	}
	return out
}

// WritesFor is the set of values that may be written for request x under m (C12).
func WritesFor(m map[int]int, x int) map[int]bool {
	out := map[int]bool{}
	for _, k := range Nearest(SupportedInputs(m), x) {
		out[m[k]] = true
	}
	return out
}

// Limits derives start and max PWM from measured PWM→RPM data (C13):
// start = lowest PWM with non-zero (whole) RPM, max = lowest PWM at which the
// highest whole RPM is reached. ok=false for empty data.
func Limits(curve map[int]float64) (start, max int, ok bool) {
	if len(curve) == 0 {
		return 0, 0, false
	}
	ks := make([]int, 0, len(curve))
	for k := range curve {
		ks = append(ks, k)
	}
	sort.Ints(ks)
	start, max = -1, -1
	best := -1
	for _, k := range ks {
		rpm := int(curve[k])
		if rpm > 0 && start < 0 {
			start = k
		}
		if rpm > best {
			best = rpm
			max = k
		}
	}
	return start, max, true
}

// Linear is the documented min/max linear curve: 0 at/below min, 255 at/above
// max, linear in between. It returns the real-valued result; the text leaves
// rounding of the interior open.
func Linear(minDeg, maxDeg int, milli float64) float64 {
	lo, hi := float64(minDeg)*1000, float64(maxDeg)*1000
	if milli <= lo {
		return 0
	}
	if milli >= hi {
		return 255
	}
	return (milli - lo) / (hi - lo) * 255
}

// Steps is the documented step curve: piecewise-linear between the configured
// (temperature °C → speed) points, clamped to the first/last point outside.
func Steps(steps map[int]float64, milli float64) float64 {
	ks := make([]int, 0, len(steps))
	for k := range steps {
		ks = append(ks, k)
	}
	sort.Ints(ks)
	t := milli / 1000
	if len(ks) == 0 {
		return math.NaN()
	}
	if t <= float64(ks[0]) {
		return steps[ks[0]]
	}
	if t >= float64(ks[len(ks)-1]) {
		return steps[ks[len(ks)-1]]
	}
	for i := 0; i+1 < len(ks); i++ {
		a, b := float64(ks[i]), float64(ks[i+1])
		if t >= a && t <= b {
			ya, yb := steps[ks[i]], steps[ks[i+1]]
			return ya + (t-a)/(b-a)*(yb-ya)
		}
	}
	return steps[ks[len(ks)-1]]
}

// Aggregate is the documented function-curve semantics over member values.
func Aggregate(fn string, vals []int) (int, bool) {
	if len(vals) == 0 {
		return 0, false
	}
	switch fn {
	case "sum":
		s := 0
		for _, v := range vals {
			s += v
		}
		if s > 255 {
			s = 255
		}
		return s, true
	case "difference":
		d := vals[0]
		for _, v := range vals[1:] {
			d -= v
		}
		if d < 0 {
			d = 0
		}
		return d, true
	case "delta":
		lo, hi := vals[0], vals[0]
		for _, v := range vals {
			if v < lo {
				lo = v
			}
			if v > hi {
				hi = v
			}
		}
		return hi - lo, true
	case "minimum":
		lo := vals[0]
		for _, v := range vals {
			if v < lo {
				lo = v
			}
		}
		return lo, true
	case "maximum":
		hi := vals[0]
		for _, v := range vals {
			if v > hi {
				hi = v
			}
		}
		return hi, true
	case "average":
		s := 0
		for _, v := range vals {
			s += v
		}
		return s / len(vals), true
	}
	return 0, false
}
