// Package stage builds the real fan2go objects for a scenario (configuration
// → internal.InitializeObjects → controllers and monitors) and runs them under
// the kernel inside a synctest bubble ("L1 controller world").
package stage

import (
	"context"
	"fmt"
	"io"
	"os"
	"reflect"
	"sort"
	"strings"
	"sync"
	"time"

	"github.com/markusressel/fan2go/internal"
	"github.com/markusressel/fan2go/internal/configuration"
	"github.com/markusressel/fan2go/internal/controller"
	"github.com/markusressel/fan2go/internal/curves"
	"github.com/markusressel/fan2go/internal/fans"
	"github.com/markusressel/fan2go/internal/persistence"
	"github.com/markusressel/fan2go/internal/sensors"
	"github.com/markusressel/fan2go/internal/simhook"
	"github.com/markusressel/fan2go/zverif/kernel"
	"github.com/markusressel/fan2go/zverif/world"
	"github.com/prometheus/client_golang/prometheus"
	"github.com/pterm/pterm"
	"github.com/spf13/viper"
	bolt "go.etcd.io/bbolt"
)

func init() {
	// keep the repository's logging code running (ui.Fatal must still panic)
	// but do not print
	if os.Getenv("VERIF_LOG") == "" {
		SetLogWriter(io.Discard)
	}
}

// SetLogWriter redirects everything fan2go prints through pterm.
func SetLogWriter(w io.Writer) {
	pterm.SetDefaultOutput(w)
	pterm.Info.Writer = w
	pterm.Warning.Writer = w
	pterm.Error.Writer = w
	pterm.Debug.Writer = w
	pterm.Success.Writer = w
	pterm.Fatal.Writer = w
}

// PlatformOf is the platform string fan2go computes for a chip of the world.
func PlatformOf(c *world.ChipSpec) string {
	switch c.Bus {
	case 1:
		return fmt.Sprintf("%s-isa-%d%03x", c.Name, c.BusNr, c.Addr)
	case 2:
		return fmt.Sprintf("%s-pci-%d%03x", c.Name, c.BusNr, c.Addr)
	case 4:
		return fmt.Sprintf("%s-virtual-%d", c.Name, c.BusNr)
	case 5:
		return fmt.Sprintf("%s-acpi-%d", c.Name, c.BusNr)
	}
	return c.Name
}

// TempIndex is the 1-based index of tempN among the chip's temperature inputs.
func TempIndex(sc *world.Scenario, chip int, tempN int) int {
	set := map[int]bool{}
	for _, n := range sc.Chips[chip].ExtraTemps {
		set[n] = true
	}
	for _, s := range sc.Sensors {
		if s.Kind == "hwmon" && s.Chip == chip {
			set[s.TempN] = true
		}
	}
	var ns []int
	for n := range set {
		ns = append(ns, n)
	}
	sort.Ints(ns)
	for i, n := range ns {
		if n == tempN {
			return i + 1
		}
	}
	return 0
}

// FanIndex is the 1-based index of fan channel ch among the chip's fan inputs.
func FanIndex(sc *world.Scenario, chip int, ch int) int {
	set := map[int]bool{}
	for _, n := range sc.Chips[chip].ExtraFans {
		set[n] = true
	}
	for _, f := range sc.Fans {
		if f.Kind == "hwmon" && f.Chip == chip {
			set[f.Channel] = true
		}
	}
	var ns []int
	for n := range set {
		ns = append(ns, n)
	}
	sort.Ints(ns)
	for i, n := range ns {
		if n == ch {
			return i + 1
		}
	}
	return 0
}

// LoadConfiguration gives the scenario to fan2go the way a user does: as the text of a configuration file
// (ConfigYAML) that the real loader reads (configuration.InitConfig, viper, configuration.LoadConfig with its
// decode hooks). Nothing in the harness names a field of the configuration structs, so whatever the loader
// makes of a spelling is what the world runs with.
func LoadConfiguration(sc *world.Scenario, w *world.World) (err error) {
	path := w.Dir + "/fan2go.yaml"
	if err := os.WriteFile(path, []byte(ConfigYAML(sc, w)), 0644); err != nil {
		return err
	}
	defer func() {
		if r := recover(); r != nil {
			err = fmt.Errorf("loading the generated configuration: %v", r)
		}
	}()
	viper.Reset()
	configuration.InitConfig(path)
	if err := viper.ReadInConfig(); err != nil {
		return fmt.Errorf("reading the generated configuration: %w", err)
	}
	configuration.LoadConfig()
	return nil
}

// configValue returns the loaded value of a top-level configuration option, found by the key a user writes
// (the field's json tag) - the harness names no Go field of fan2go's configuration structs.
func configValue(key string) any {
	v := reflect.ValueOf(configuration.CurrentConfig)
	t := v.Type()
	for i := 0; i < t.NumField(); i++ {
		tag := t.Field(i).Tag.Get("json")
		if k, _, _ := strings.Cut(tag, ","); strings.EqualFold(k, key) {
			return v.Field(i).Interface()
		}
	}
	return nil
}

// Stage is one running L1 world.
type Stage struct {
	Sc  *world.Scenario
	W   *world.World
	K   *kernel.Kernel
	Ctx context.Context
	// Cancel stops regulation (what the signal actor does in the daemon).
	Cancel context.CancelFunc

	Pers    persistence.Persistence
	Fans    map[string]fans.Fan
	Ctls    map[string]controller.FanController
	Sensors map[string]sensors.Sensor
	Curves  map[string]curves.SpeedCurve

	mu        sync.Mutex
	actors    int
	ActorErr  map[string]string // actor name → returned error ("" = nil)
	ActorEnd  map[string]time.Duration
	BootErr   error
	Booted    bool
	BootedAt  time.Duration
	OnBooted  func(s *Stage) // called in the boot task once objects exist, before actors start
	EndReason string
	// ExtraEnv lets a family define its own environment event kinds.
	ExtraEnv func(e world.EnvEvent) func()
	// ValidateFirst runs the real configuration.Validate on the built configuration before the objects are
	// created (only for configurations without cmd entries: the configuration file rule needs a file).
	ValidateFirst bool
	// HarnessDriven: a harness task started in OnBooted ends the run itself.
	HarnessDriven bool
	CancelledT    time.Duration
}

// ResetGlobals clears process-wide state left behind by a previous run.
func ResetGlobals() {
	fans.VerifReset()
	sensors.VerifReset()
	curves.VerifReset()
	reg := prometheus.NewRegistry()
	prometheus.DefaultRegisterer = reg
	prometheus.DefaultGatherer = reg
}

// PreseedDB writes raw entries into the database file with bbolt directly.
func PreseedDB(path string, entries []world.DBEntry) error {
	if len(entries) == 0 {
		return nil
	}
	db, err := bolt.Open(path, 0600, &bolt.Options{Timeout: time.Second})
	if err != nil {
		return err
	}
	defer db.Close()
	return db.Update(func(tx *bolt.Tx) error {
		for _, e := range entries {
			b, err := tx.CreateBucketIfNotExists([]byte(e.Bucket))
			if err != nil {
				return err
			}
			if err := b.Put([]byte(e.Key), []byte(e.Value)); err != nil {
				return err
			}
		}
		return nil
	})
}

// New prepares kernel and world for the scenario. Must run inside the bubble.
func New(sc *world.Scenario) (*Stage, error) {
	k := kernel.New(sc.Seed)
	k.FirstCandidate = sc.FirstCandidate
	w, err := world.New(sc, k)
	if err != nil {
		return nil, err
	}
	s := &Stage{Sc: sc, W: w, K: k, Fans: map[string]fans.Fan{}, Ctls: map[string]controller.FanController{},
		Sensors: map[string]sensors.Sensor{}, Curves: map[string]curves.SpeedCurve{},
		ActorErr: map[string]string{}, ActorEnd: map[string]time.Duration{}}
	s.Ctx, s.Cancel = context.WithCancel(context.Background())
	ResetGlobals()
	if err := PreseedDB(w.DBPath(), sc.DB); err != nil {
		return nil, err
	}
	if err := LoadConfiguration(sc, w); err != nil {
		return nil, err
	}
	simhook.Install(w)
	return s, nil
}

func (s *Stage) spawn(name string, delay time.Duration, fn func() error) {
	s.mu.Lock()
	s.actors++
	s.mu.Unlock()
	go func() {
		if delay > 0 {
			time.Sleep(delay)
		}
		s.K.Park(kernel.NewTaskEvent("task", "start:"+name), nil)
		err := fn()
		s.mu.Lock()
		s.actors--
		if err != nil {
			s.ActorErr[name] = err.Error()
		} else {
			s.ActorErr[name] = ""
		}
		s.ActorEnd[name] = s.K.Now()
		left := s.actors
		s.mu.Unlock()
		if left == 0 {
			s.K.Stop()
		}
	}()
}

// ActorsLeft is the number of actors still running.
func (s *Stage) ActorsLeft() int { s.mu.Lock(); defer s.mu.Unlock(); return s.actors }

// Boot is the task that performs what RunDaemon does up to starting the actors.
func (s *Stage) boot() {
	if s.ValidateFirst {
		// what every entry point of the program does between loading the configuration and using it
		if err := configuration.Validate(""); err != nil {
			s.BootErr = fmt.Errorf("validation: %w", err)
			s.K.Stop()
			return
		}
	}
	fanMap, err := internal.InitializeObjects()
	if err != nil {
		s.BootErr = err
		s.K.Stop()
		return
	}
	dbPath, _ := configValue("dbPath").(string)
	if dbPath == "" {
		dbPath = s.W.DBPath()
	}
	s.Pers = persistence.NewPersistence(dbPath)
	// the controllers, created by the daemon's own wiring (control algorithm selection included)
	ctls, err := internal.VerifInitializeFanControllers(s.Pers, fanMap)
	if err != nil {
		s.BootErr = err
		s.K.Stop()
		return
	}
	for cfg, fan := range fanMap {
		s.Fans[cfg.ID] = fan
		s.Ctls[cfg.ID] = ctls[fan]
	}
	for _, sp := range s.Sc.Sensors {
		if x, ok := sensors.GetSensor(sp.ID); ok {
			s.Sensors[sp.ID] = x
		}
	}
	for _, cp := range s.Sc.Curves {
		if x, ok := curves.GetSpeedCurve(cp.ID); ok {
			s.Curves[cp.ID] = x
		}
	}
	s.Booted = true
	s.BootedAt = s.K.Now()
	if s.OnBooted != nil {
		s.OnBooted(s)
	}
	if !s.Sc.NoMonitors {
		ids := make([]string, 0, len(s.Sensors))
		for id := range s.Sensors {
			ids = append(ids, id)
		}
		sort.Strings(ids)
		for _, id := range ids {
			rate, ok := configValue("tempSensorPollingRate").(time.Duration)
			if !ok {
				rate = s.Sc.TempPoll.D()
			}
			mon := internal.NewSensorMonitor(s.Sensors[id], rate)
			s.spawn("mon:"+id, 0, func() error { return mon.Run(s.Ctx) })
		}
	}
	if !s.Sc.NoControllers {
		for i := range s.Sc.Fans {
			f := &s.Sc.Fans[i]
			ctl := s.Ctls[f.ID]
			if ctl == nil {
				continue
			}
			s.spawn("ctl:"+f.ID, f.StartDelay.D(), func() error { return ctl.Run(s.Ctx) })
		}
	}
	if s.ActorsLeft() == 0 && !s.HarnessDriven {
		s.K.Stop()
	}
}

// Execute runs the scenario to its end: boot, actors until Horizon, cancel,
// then until every actor has returned or Grace has elapsed.
func (s *Stage) Execute() string {
	s.K.Go("boot", s.boot)
	s.scheduleEnv()
	horizon := s.Sc.Horizon.D()
	reason := s.K.Run(horizon)
	if reason == "horizon" {
		// end the run at a point where no loop is inside a cycle: a loop that finds both its ticker and
		// the cancelled context ready lets Go's select choose at random, which no seed controls
		s.K.StopWhenIdle = true
		if r := s.K.Run(horizon + 10*time.Second); r != "idle" && r != "horizon" {
			reason = r
		}
		s.K.StopWhenIdle = false
	}
	if reason == "horizon" {
		s.CancelledT = s.K.Now()
		s.Cancel()
		grace := s.Sc.Grace.D()
		if grace <= 0 {
			grace = 30 * time.Second
		}
		reason = s.K.Run(horizon + grace)
		if reason == "stopped" {
			reason = "clean"
		} else if reason == "horizon" {
			reason = "grace-expired"
		}
	} else if reason == "stopped" {
		if s.BootErr != nil {
			reason = "boot-error"
		} else {
			reason = "actors-ended"
		}
	}
	s.EndReason = reason
	return reason
}

func (s *Stage) scheduleEnv() {
	for i := range s.Sc.Env {
		e := s.Sc.Env[i]
		fn := s.envAction(e)
		name := fmt.Sprintf("%s#%d", e.Kind, i)
		if strings.HasPrefix(e.When, "cycle") {
			// after every control cycle of the fan (cycle2: every other one), from e.At on: a third party
			// (firmware in a semi-automatic mode, another daemon) that keeps overwriting the value
			e, n := e, 0
			s.K.WhenEvery(name, func(last *kernel.Event) bool {
				if last == nil || last.Kind != "yield" || last.Site != "ctl.cycle.end" || last.ID != e.Fan || s.K.Now() < e.At.D() {
					return false
				}
				n++
				return e.When != "cycle2" || n%2 == 0
			}, fn)
		} else if e.AtSeq > 0 {
			s.K.AtSeq(e.AtSeq, name, fn)
		} else {
			s.K.At(e.At.D(), name, fn)
		}
	}
}

func (s *Stage) envAction(e world.EnvEvent) func() {
	return func() {
		ev := s.K.Current()
		if ev != nil {
			ev.ID = e.Fan
			ev.Val = e.Value
		}
		switch e.Kind {
		case "3rd.mode":
			old := -1
			if f := s.W.Fans[e.Fan]; f != nil && f.EnaPath != "" {
				old, _ = world.ReadInt(f.EnaPath)
			}
			s.W.SetThirdParty(e.Fan, "mode", e.Value)
			if ev != nil {
				ev.Out = fmt.Sprintf("old=%d", old)
			}
		case "3rd.pwm":
			old := -1
			if f := s.W.Fans[e.Fan]; f != nil {
				old, _ = world.ReadInt(f.PwmPath)
			}
			s.W.SetThirdParty(e.Fan, "pwm", e.Value)
			if ev != nil {
				ev.Out = fmt.Sprintf("old=%d", old)
			}
		case "cancel":
			s.CancelledT = s.K.Now()
			s.Cancel()
		case "setfile":
			_ = os.WriteFile(s.worldPath(e.Path), []byte(e.Text), 0644)
		case "remove":
			_ = os.Remove(s.worldPath(e.Path))
			s.W.CountFault("file.removed")
		case "chmod":
			_ = os.Chmod(s.worldPath(e.Path), os.FileMode(e.Value))
			s.W.CountFault("perm.flip")
		case "chown":
			_ = os.Chown(s.worldPath(e.Path), e.Value/100000, e.Value%100000)
			s.W.CountFault("perm.flip")
		default:
			if s.ExtraEnv != nil {
				if fn := s.ExtraEnv(e); fn != nil {
					fn()
				}
			}
		}
	}
}

func (s *Stage) worldPath(p string) string {
	return strings.ReplaceAll(p, "@W@", s.W.Dir)
}

// Close removes the world; leaves the hook installed until the next New.
func (s *Stage) Close() {
	simhook.Install(nil)
	s.W.Cleanup()
}

// Describe is a short one-line description of a scenario for samples.
func Describe(sc *world.Scenario) string {
	var fs []string
	for _, f := range sc.Fans {
		fs = append(fs, fmt.Sprintf("%s:%s/%s", f.ID, f.Kind, f.Algo.Kind))
	}
	return fmt.Sprintf("%s seed=%d fans=[%s] env=%d faults=%d horizon=%s", sc.Family, sc.Seed, strings.Join(fs, ","), len(sc.Env), len(sc.Faults), sc.Horizon.D())
}
