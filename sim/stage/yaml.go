package stage

import (
	"fmt"
	"sort"
	"strings"

	"github.com/markusressel/fan2go/zverif/world"
)

// ConfigYAML renders the scenario as a fan2go.yaml document (the text a user
// would write), for the L2 daemon world.
func ConfigYAML(sc *world.Scenario, w *world.World) string {
	var b strings.Builder
	p := func(format string, a ...any) { fmt.Fprintf(&b, format+"\n", a...) }
	p("dbPath: %q", w.DBPath())
	if !sc.ParallelInit && sc.FalseWord != "" {
		p("runFanInitializationInParallel: %s", sc.FalseWord)
	} else {
		p("runFanInitializationInParallel: %v", sc.ParallelInit)
	}
	p("maxRpmDiffForSettledFan: %v", sc.MaxRpmDiff)
	p("fanResponseDelay: %d", sc.FanResponseDelay)
	p("tempSensorPollingRate: %s", sc.TempPoll.D())
	p("tempRollingWindowSize: %d", sc.TempWin)
	p("rpmPollingRate: %s", sc.RpmPoll.D())
	p("rpmRollingWindowSize: %d", sc.RpmWin)
	p("controllerAdjustmentTickRate: %s", sc.Tick.D())
	p("fans:")
	for i := range sc.Fans {
		f := &sc.Fans[i]
		st := w.Fans[f.ID]
		p("  - id: %s", f.ID)
		switch f.Kind {
		case "hwmon":
			p("    hwmon:")
			p("      platform: %s", PlatformOf(&sc.Chips[f.Chip]))
			if f.ByIndex {
				p("      index: %d", FanIndex(sc, f.Chip, f.Channel))
			} else {
				p("      rpmChannel: %d", f.Channel)
			}
			if f.PwmChan != 0 {
				p("      pwmChannel: %d", f.PwmChan)
			}
		case "file":
			p("    file:")
			p("      path: %s", st.PwmPath)
			if st.RpmConfigPath != "" {
				p("      rpmPath: %s", st.RpmConfigPath)
			} else if st.RpmPath != "" {
				p("      rpmPath: %s", st.RpmPath)
			}
		case "cmd":
			p("    cmd:")
			p("      setPwm:")
			p("        exec: %s", st.SetPwmExe)
			p("        args: [\"%%pwm%%\"]")
			if !f.NoGetPwm {
				p("      getPwm:")
				p("        exec: %s", st.GetPwmExe)
			}
			if st.GetRpmExe != "" {
				p("      getRpm:")
				p("        exec: %s", st.GetRpmExe)
			}
		}
		p("    neverStop: %v", f.NeverStop)
		p("    curve: %s", f.Curve)
		if f.MinPwm != nil {
			p("    minPwm: %d", *f.MinPwm)
		}
		if f.StartPwm != nil {
			p("    startPwm: %d", *f.StartPwm)
		}
		if f.MaxPwm != nil {
			p("    maxPwm: %d", *f.MaxPwm)
		}
		if f.PwmMap != nil {
			p("    pwmMap:")
			keys := make([]int, 0, len(*f.PwmMap))
			for k := range *f.PwmMap {
				keys = append(keys, k)
			}
			sort.Ints(keys)
			for _, k := range keys {
				p("      %d: %d", k, (*f.PwmMap)[k])
			}
		}
		switch f.Algo.Kind {
		case "direct":
			if f.Algo.MaxChange != nil {
				p("    controlAlgorithm:")
				p("      direct:")
				p("        maxPwmChangePerCycle: %d", *f.Algo.MaxChange)
			} else {
				p("    controlAlgorithm: direct")
			}
		case "pid":
			p("    controlAlgorithm:")
			p("      pid:")
			p("        p: %v", f.Algo.P)
			p("        i: %v", f.Algo.I)
			p("        d: %v", f.Algo.D)
		case "pidword":
			p("    controlAlgorithm: pid")
		case "directword":
			p("    controlAlgorithm: direct")
		case "legacy":
			p("    controlLoop:")
			p("      p: %v", f.Algo.P)
			p("      i: %v", f.Algo.I)
			p("      d: %v", f.Algo.D)
		}
	}
	p("sensors:")
	for i := range sc.Sensors {
		s := &sc.Sensors[i]
		st := w.Sensors[s.ID]
		p("  - id: %s", s.ID)
		switch s.Kind {
		case "hwmon":
			p("    hwmon:")
			p("      platform: %s", PlatformOf(&sc.Chips[s.Chip]))
			p("      index: %d", TempIndex(sc, s.Chip, s.TempN))
		case "file":
			p("    file:")
			p("      path: %s", cfgPath(st))
		case "cmd":
			p("    cmd:")
			p("      exec: %s", st.Exe)
		}
	}
	p("curves:")
	for i := range sc.Curves {
		c := &sc.Curves[i]
		p("  - id: %s", c.ID)
		switch c.Kind {
		case "linear":
			p("    linear:")
			p("      sensor: %s", c.Sensor)
			p("      min: %d", c.Min)
			p("      max: %d", c.Max)
		case "steps":
			p("    linear:")
			p("      sensor: %s", c.Sensor)
			p("      steps:")
			keys := make([]int, 0, len(c.Steps))
			for k := range c.Steps {
				keys = append(keys, k)
			}
			sort.Ints(keys)
			for _, k := range keys {
				p("        - %d: %v", k, c.Steps[k])
			}
		case "pid":
			p("    pid:")
			p("      sensor: %s", c.Sensor)
			p("      setPoint: %v", c.PID.SetPoint)
			p("      p: %v", c.PID.P)
			p("      i: %v", c.PID.I)
			p("      d: %v", c.PID.D)
		case "function":
			p("    function:")
			p("      type: %s", c.Func)
			p("      curves:")
			for _, m := range c.Members {
				p("        - %s", m)
			}
		}
	}
	p("api:")
	p("  enabled: false")
	p("statistics:")
	p("  enabled: false")
	return b.String()
}

// cfgPath is the path of a file sensor as the configuration gives it.
func cfgPath(st *world.SensorState) string {
	if st.ConfigPath != "" {
		return st.ConfigPath
	}
	return st.Path
}
