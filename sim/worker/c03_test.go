package worker

import (
	"fmt"
	"strings"
	"testing"
	"time"

	"github.com/markusressel/fan2go/zverif/check"
	"github.com/markusressel/fan2go/zverif/kernel"
	"github.com/markusressel/fan2go/zverif/world"
)

// C03 — stopping regulation hands the fan back or leaves it at full speed.
// L2: the real program (cobra root command → RunDaemon) in its own process;
// signals are injected with os/signal's send semantics at seeded instants.

func init() {
	register(&Family{Name: "c03", Gen: genC03, Run: runC03})
}

func genC03(seed uint64, tier string) *world.Scenario {
	sc, r := baseScenario("c03", seed)
	chip := addChip(sc, "simchip")
	sc.RpmPoll = ms(kernel.Pick(r, 500, 1000))
	sc.FanResponseDelay = 1
	nf := r.Range(1, 2)
	withInit := r.Bool(0.2) // some runs go through the real analysis (signal during init)
	sc.ParallelInit = r.Bool(0.5)
	for i := 0; i < nf; i++ {
		kind := kernel.Pick(r, "hwmon", "hwmon", "hwmon", "hwmon", "file", "cmd")
		_, cid := addSensorCurve(sc, r, i, kernel.Pick(r, "hwmon", "file"), constTemp(tempForCurve(r.Range(0, 200))), chip)
		f := world.FanSpec{ID: fmt.Sprintf("f%d", i), Kind: kind, Curve: cid, Chip: chip, Channel: i + 1}
		f.Plant = defaultPlant(r)
		f.Plant.MinRpm = 250
		f.Driver = world.DriverSpec{InitMode: kernel.Pick(r, 0, 1, 2, 2, 3, 5), InitPwm: r.Range(0, 254), AutoPwm: 110}
		if kind != "hwmon" || r.Bool(0.15) {
			f.Driver.NoEnable = true
		}
		f.Algo = world.AlgoSpec{Kind: kernel.Pick(r, "direct", "", "pidword")}
		f.NeverStop = r.Bool(0.3)
		if kind == "hwmon" && r.Bool(0.4) {
			lo := r.Range(0, 100)
			f.MinPwm, f.MaxPwm = world.IntP(lo), world.IntP(r.Range(lo+1, 255))
		}
		if !(withInit && kind == "hwmon") {
			if r.Bool(0.6) {
				// configured map: fan2go does not touch the fan before its first cycle;
				// otherwise the PWM sweep puts it into manual mode during start-up
				im := identityMap()
				if kernel.NewRand(seed, "c03.cappedmap."+f.ID).Bool(0.3) {
					// a user map that rescales / caps the fan: its top entry is not 255 (full speed is still raw 255)
					top := kernel.Pick(r, 120, 200, 254)
					im = map[int]int{0: 0, 64: top / 4, 128: top / 2, 192: top * 3 / 4, 255: top}
				}
				f.PwmMap = &im
			} else {
				f.Driver.Quant, f.Driver.K = "mult", kernel.Pick(r, 16, 51)
				f.Driver.InitPwm = world.Quantise(&f.Driver, f.Driver.InitPwm)
			}
			if kind == "hwmon" {
				preseedRpmCurve(sc, f.ID, linearRpmCurve(f.Plant.StartThr, 255, f.Plant.MaxRpm))
			}
		} else {
			f.Driver.Quant, f.Driver.K = "mult", kernel.Pick(r, 32, 51)
			f.Driver.InitPwm = world.Quantise(&f.Driver, f.Driver.InitPwm)
		}
		// restore-phase driver faults
		if r.Bool(0.45) {
			nfault := r.Range(1, 3)
			for j := 0; j < nfault; j++ {
				if r.Bool(0.5) && !f.Driver.NoEnable {
					sc.Faults = append(sc.Faults, world.FaultSpec{Op: "write", Target: "fan:" + f.ID + ":enable", Nth: 0, Count: kernel.Pick(r, 1, 5), Kind: kernel.Pick(r, "einval", "ignored", "error"), OnlyFlags: "restore"})
				} else if kind != "cmd" {
					sc.Faults = append(sc.Faults, world.FaultSpec{Op: "write", Target: "fan:" + f.ID + ":pwm", Nth: r.Range(0, 1), Count: 1, Kind: kernel.Pick(r, "error", "ignored"), OnlyFlags: "restore"})
				}
			}
		}
		if r.Bool(0.08) && !f.Driver.NoEnable {
			f.Driver.ModeStuck = true
		}
		if br := kernel.NewRand(seed, "c03.busymode."+f.ID); br.Bool(0.2) && !f.Driver.NoEnable {
			// while regulating, the mode attribute refuses every write for a cycle or a few (EBUSY / EIO around a
			// resume, a locked chip bank); PWM writes keep working; later - possibly much later - fan2go is stopped
			sc.Faults = append(sc.Faults, world.FaultSpec{Op: "write", Target: "fan:" + f.ID + ":enable", Nth: br.Range(0, 6), Count: kernel.Pick(br, 2, 4, 6, 12), Kind: kernel.Pick(br, "ebusy", "error", "einval"), OnlyFlags: "upd"})
		}
		if ur := kernel.NewRand(seed, "c03.unreadable."+f.ID); ur.Bool(0.12) && kind != "cmd" && f.PwmMap != nil {
			// a fan whose PWM value can never be read (every read of the file fails): fan2go then works with
			// the value it believes to have set; often with the curve at its maximum when the signal comes
			sc.Faults = append(sc.Faults, world.FaultSpec{Op: "read", Target: "fan:" + f.ID + ":pwm", Nth: 0, Count: 1 << 30, Kind: "eio"})
			if ur.Bool(0.7) {
				sc.Sensors[len(sc.Sensors)-1].Prog = constTemp(tempForCurve(255))
			}
		}
		sc.Fans = append(sc.Fans, f)
	}
	// signals
	phase := r.Intn(6)
	var t0 float64
	switch phase {
	case 0: // start-up wait
		t0 = 0.3 + r.Float()*1.8
	case 1: // around the end of the start-up wait / analysis
		t0 = 2.0 + r.Float()*2.5
	case 2: // first-second delay
		t0 = 3.0 + r.Float()*1.5
	default: // ticking
		t0 = 4.5 + r.Float()*6
	}
	if withInit {
		t0 = 1 + r.Float()*25
	}
	sc.Env = append(sc.Env, world.EnvEvent{Kind: "signal", At: sec(t0), Value: kernel.Pick(r, 15, 2)})
	if phase == 5 && !withInit {
		// bound to a decision index: lands between two seam events of a cycle
		sc.Env[0].At, sc.Env[0].AtSeq = 0, 700+r.Range(0, 900)
	}
	more := r.Intn(3)
	for j := 0; j < more; j++ {
		e := world.EnvEvent{Kind: "signal", Value: kernel.Pick(r, 15, 2)}
		switch r.Intn(3) {
		case 0: // same instant / shortly after
			e.At = sec(t0 + kernel.Pick(r, 0.0, 0.000001, 0.01, 0.5))
			if sc.Env[0].AtSeq > 0 {
				e.At, e.AtSeq = 0, sc.Env[0].AtSeq+r.Range(0, 3)
			}
		case 1: // during restoration
			e.When = fmt.Sprintf("restore:%d", r.Range(1, 3))
		default:
			e.At = sec(t0 + r.Float()*3)
			if sc.Env[0].AtSeq > 0 {
				e.At, e.AtSeq = 0, sc.Env[0].AtSeq+r.Range(1, 60)
			}
		}
		sc.Env = append(sc.Env, e)
	}
	last := t0 + 4
	if sc.Env[0].AtSeq > 0 {
		last = 25
	}
	sc.Horizon = sec(last + 60)
	sc.Params["signals"] = float64(1 + more)
	return sc
}

func runC03(t *testing.T, sc *world.Scenario) *check.Result {
	res := check.NewResult(sc.Family, sc.Seed)
	res.ScHash = scHash(sc)
	res.Sample = fmt.Sprintf("c03 seed=%d fans=%s signals=%v faults=%d", sc.Seed, fanKinds(sc), envSummary(sc), len(sc.Faults))
	worldDir, outDir := l2Dirs()
	defer l2Cleanup(worldDir)
	co := runChild(&childSpec{Scenario: sc, WorldDir: worldDir, OutDir: outDir}, 120*time.Second)
	accumulate(res, co)
	if stuckViolation(res, "C03", co) {
		return res
	}
	if co.Harness != "" {
		res.Harness = co.Harness + "\n" + tailStr(co.Stderr, 1500)
		return res
	}
	judgeStop(res, sc, co, "C03")
	return res
}

func tailStr(s string, n int) string {
	if len(s) > n {
		return s[len(s)-n:]
	}
	return s
}

func fanKinds(sc *world.Scenario) string {
	var p []string
	for _, f := range sc.Fans {
		p = append(p, fmt.Sprintf("%s(mode=%d,pwm=%d)", f.Kind, f.Driver.InitMode, f.Driver.InitPwm))
	}
	return strings.Join(p, ",")
}

func envSummary(sc *world.Scenario) string {
	var p []string
	for _, e := range sc.Env {
		switch {
		case e.When != "":
			p = append(p, e.Kind+"@"+e.When)
		case e.AtSeq > 0:
			p = append(p, fmt.Sprintf("%s@seq%d", e.Kind, e.AtSeq))
		default:
			p = append(p, fmt.Sprintf("%s@%s", e.Kind, e.At.D()))
		}
	}
	return strings.Join(p, ",")
}

// judgeStop applies the final-state predicate of C03 to a finished incarnation.
func judgeStop(res *check.Result, sc *world.Scenario, co *childOut, prop string) {
	// which fans did fan2go touch, and what did it attempt during restoration
	type fanInfo struct {
		touched      bool
		w255         int // writes of 255 attempted from the restore path
		w255Faulted  int
		modeRestore  int // mode writes (original mode) attempted from the restore path
		modeFaulted  int
		restoreSeen  bool
		pwmPath, ena string
	}
	info := map[string]*fanInfo{}
	rel := func(p string) string { return strings.TrimPrefix(p, co.WorldDir+"/") }
	pathFan := map[string][2]string{} // relative path → (fan, role)
	for _, f := range sc.Fans {
		info[f.ID] = &fanInfo{}
		switch f.Kind {
		case "hwmon":
			pc := f.PwmChan
			if pc == 0 {
				pc = f.Channel
			}
			d := "hw/" + sc.Chips[f.Chip].Dir
			pathFan[fmt.Sprintf("%s/pwm%d", d, pc)] = [2]string{f.ID, "pwm"}
			pathFan[fmt.Sprintf("%s/pwm%d_enable", d, pc)] = [2]string{f.ID, "enable"}
		default:
			pathFan["files/"+f.ID+".pwm"] = [2]string{f.ID, "pwm"}
			pathFan["scripts/"+f.ID+"_setpwm.sh"] = [2]string{f.ID, "setpwm"}
		}
	}
	started := map[string]bool{} // the fan's controller reached its start-up wait
	signals, delivered := 0, 0
	signalPhase := ""
	for _, ev := range co.Events {
		if ev.Kind == "env" && strings.HasPrefix(ev.Site, "signal") {
			signals++
			delivered += ev.Val
			continue
		}
		if ev.Kind == "read" && ev.Flags&kernel.FRunStart != 0 {
			if fr, ok := pathFan[rel(ev.Site)]; ok {
				started[fr[0]] = true
			}
		}
		if ev.Kind == "yield" && (ev.Site == "ctl.startup" || ev.Site == "ctl.delay" || ev.Site == "ctl.tick") {
			started[ev.ID] = true
		}
		var fr [2]string
		var ok bool
		val := ev.Val
		switch {
		case ev.Kind == "write":
			fr, ok = pathFan[rel(ev.Site)]
		case ev.Kind == "yield" && ev.Site == "exec.start":
			fr, ok = pathFan[rel(ev.ID)]
			if ok && len(ev.Args) > 0 {
				fmt.Sscanf(ev.Args[0], "%d", &val)
			}
		}
		if !ok {
			continue
		}
		fi := info[fr[0]]
		fi.touched = true
		if ev.Flags&kernel.FRestore == 0 {
			continue
		}
		fi.restoreSeen = true
		failed := ev.Err != "" || ev.Fault != ""
		switch fr[1] {
		case "pwm", "setpwm":
			if val == 255 {
				fi.w255++
				if failed {
					fi.w255Faulted++
				}
			}
		case "enable":
			fi.modeRestore++
			if failed {
				fi.modeFaulted++
			}
		}
	}
	res.ProbeN("signals-injected", signals)
	if signals > 1 {
		res.Probe("multi-signal-run")
	}
	for _, e := range sc.Env {
		if e.When != "" {
			signalPhase = "during-restore"
		}
	}
	_ = signalPhase
	if signals > 0 && delivered == 0 {
		res.Probe("signal-before-registration(unjudged)")
		return
	}
	// orderly end?
	sigBase := fmt.Sprintf("signals=%s", countClass(signals))
	switch {
	case co.PanicMsg != "":
		res.Violate(prop, "orderly-exit", "orderly-exit panic at "+co.PanicSite+" "+sigBase, 0, nil, "the program died with a Go panic: %s (at %s)", co.PanicMsg, co.PanicSite)
	case co.hasNote("signal-delivery-panic"):
		res.Violate(prop, "orderly-exit", "orderly-exit signal-delivery-panic "+sigBase, 0, nil,
			"delivering a further signal panics (send on the closed, still registered signal channel): the real process would die here, in the middle of shutting down")
	case co.End == "horizon":
		res.Violate(prop, "terminates", "terminates "+sigBase, 0, nil, "the program was still running %s of virtual time after the last signal", "60s")
	case co.ExitCode != 0 && co.ExitCode != 1 && co.ExitCode != 11:
		res.Violate(prop, "orderly-exit", fmt.Sprintf("orderly-exit status=%d", co.ExitCode), 0, nil, "exit status %d: %s", co.ExitCode, tailStr(co.Stderr, 300))
	}
	if co.End == "horizon" || co.End == "maxevents" {
		// regulation never stopped: there is no final state to judge
		res.Probe("still-running-at-horizon")
		if signals == 0 {
			return
		}
	}
	// final driver state
	for i := range sc.Fans {
		f := &sc.Fans[i]
		fi := info[f.ID]
		if !fi.touched && !started[f.ID] {
			res.Probe("fan-untouched")
			continue
		}
		if !fi.touched {
			// the controller had started but never wrote: the predicate still has to hold
			// (a fan found in manual mode at reduced speed must end at full speed)
			res.Probe("fan-started-but-never-written")
		}
		if co.End == "horizon" || co.End == "maxevents" {
			continue
		}
		res.Probe("fans-judged")
		pwm, mode := readFinal(co.WorldDir, sc, f)
		hasMode := f.Kind == "hwmon" && !f.Driver.NoEnable
		orig := f.Driver.InitMode
		ok := handedBack(f, pwm, mode)
		st := fmt.Sprintf("kind=%s origMode=%s modeSupport=%v", f.Kind, modeClass(orig), hasMode)
		res.State(st + fmt.Sprintf("|restoreFaults=%v|signals=%s", hasRestoreFault(sc, f.ID), countClass(signals)))
		if ok {
			continue
		}
		// narrow relaxation: every attempt to write 255 was itself made to fail by the fault plan
		if fi.w255 > 0 && fi.w255Faulted == fi.w255 {
			res.Probe("unsatisfiable-fault-plan(unjudged)")
			continue
		}
		cause := "none"
		if fi.modeFaulted > 0 {
			cause = "mode-write-" + faultKindOf(sc, f.ID, "enable")
		} else if f.Driver.ModeStuck {
			cause = "mode-stuck"
		} else if fi.w255Faulted > 0 {
			cause = "pwm-write-fault"
		}
		if co.hasNote("signal-delivery-panic") || co.PanicMsg != "" {
			cause = "process-died"
		}
		res.Violate(prop, "final-state", fmt.Sprintf("final-state %s cause=%s", st, cause), 0, nil,
			"fan %s (%s) was left in mode %d at PWM %d (original mode %d, original PWM %d); restore attempts: 255 written %d times (%d made to fail), mode writes %d (%d made to fail)",
			f.ID, f.Kind, mode, pwm, orig, f.Driver.InitPwm, fi.w255, fi.w255Faulted, fi.modeRestore, fi.modeFaulted)
	}
	res.Nontrivial = res.Probes["fans-judged"] > 0
}

func countClass(n int) string {
	if n >= 2 {
		return "many"
	}
	return fmt.Sprint(n)
}

func modeClass(m int) string {
	switch m {
	case 0, 1, 2:
		return fmt.Sprint(m)
	}
	return "other"
}

func hasRestoreFault(sc *world.Scenario, fan string) bool {
	for _, ft := range sc.Faults {
		if ft.OnlyFlags == "restore" && strings.HasPrefix(ft.Target, "fan:"+fan+":") {
			return true
		}
	}
	return false
}

func faultKindOf(sc *world.Scenario, fan, role string) string {
	for _, ft := range sc.Faults {
		if ft.Target == "fan:"+fan+":"+role && ft.OnlyFlags == "restore" {
			return ft.Kind
		}
	}
	return "?"
}

func readFinal(worldDir string, sc *world.Scenario, f *world.FanSpec) (pwm, mode int) {
	pwm, mode = -1, -1
	switch f.Kind {
	case "hwmon":
		pc := f.PwmChan
		if pc == 0 {
			pc = f.Channel
		}
		d := worldDir + "/hw/" + sc.Chips[f.Chip].Dir
		if v, err := world.ReadInt(fmt.Sprintf("%s/pwm%d", d, pc)); err == nil {
			pwm = v
		}
		if v, err := world.ReadInt(fmt.Sprintf("%s/pwm%d_enable", d, pc)); err == nil {
			mode = v
		}
	default:
		if v, err := world.ReadInt(worldDir + "/files/" + f.ID + ".pwm"); err == nil {
			pwm = v
		}
	}
	return
}

// handedBack is the final-state predicate of C03: the fan is in the control
// mode it had when fan2go started (unless that was manual mode), or at full
// speed: PWM 255, or pwm_enable 0, which by the hwmon ABI (and fan2go's own
// ControlModeDisabled) means "no control, fan at full speed".
func handedBack(f *world.FanSpec, pwm, mode int) bool {
	hasMode := f.Kind == "hwmon" && !f.Driver.NoEnable
	if pwm == 255 {
		return true
	}
	if hasMode && mode == 0 {
		return true
	}
	return hasMode && mode == f.Driver.InitMode && f.Driver.InitMode != 1
}
