package worker

import (
	"bytes"
	"encoding/json"
	"fmt"
	"os"
	"os/exec"
	"path/filepath"
	"strings"
	"syscall"
	"testing"
	"time"

	"github.com/markusressel/fan2go/cmd"
	"github.com/markusressel/fan2go/zverif/check"
	"github.com/markusressel/fan2go/zverif/kernel"
	"github.com/markusressel/fan2go/zverif/stage"
	"github.com/markusressel/fan2go/zverif/world"
)

// rt.c03: cross-validation of the injected-signal model (outside the
// deterministic core): the real daemon on the REAL clock with REAL signals
// (kill -TERM / -INT, once or several times) against the fake hwmon tree; the
// same final-state predicate. Timing is best-effort; a crash or a fan left
// reduced is reported like any violation, with the scenario as replay file.

func init() {
	register(&Family{Name: "rt.c03", Gen: genC03Real, Run: runC03Real})
}

func genC03Real(seed uint64, tier string) *world.Scenario {
	sc, r := baseScenario("rt.c03", seed)
	chip := addChip(sc, "simchip")
	sc.Tick, sc.TempPoll, sc.RpmPoll = ms(100), ms(100), ms(200)
	_, cid := addSensorCurve(sc, r, 0, "file", constTemp(tempForCurve(r.Range(30, 200))), chip)
	nf := r.Range(1, 2)
	for i := 0; i < nf; i++ {
		f := world.FanSpec{ID: fmt.Sprintf("f%d", i), Kind: kernel.Pick(r, "hwmon", "hwmon", "file"), Curve: cid, Chip: chip, Channel: i + 1, Algo: world.AlgoSpec{Kind: "direct"}}
		f.Plant = world.PlantSpec{MaxRpm: 2000, StartThr: 10, StopThr: 5, TauMs: 100, InitRpm: 900, MinRpm: 300}
		f.Driver = world.DriverSpec{InitMode: kernel.Pick(r, 0, 1, 2, 5), InitPwm: r.Range(0, 254), AutoPwm: 100, NoEnable: f.Kind != "hwmon"}
		im := identityMap()
		f.PwmMap = &im
		if f.Kind == "hwmon" {
			preseedRpmCurve(sc, f.ID, linearRpmCurve(10, 255, 2000))
		}
		sc.Fans = append(sc.Fans, f)
	}
	// first signal: during the start-up wait, the first-second delay, or while ticking
	t0 := kernel.Pick(r, 0.8, 2.6, 3.3, 4.2, 5.0) + r.Float()*0.3
	sc.Env = append(sc.Env, world.EnvEvent{Kind: "signal", At: sec(t0), Value: kernel.Pick(r, 15, 2)})
	for j := 0; j < r.Intn(3); j++ {
		sc.Env = append(sc.Env, world.EnvEvent{Kind: "signal", At: sec(t0 + kernel.Pick(r, 0.0, 0.001, 0.01, 0.05, 0.3)), Value: kernel.Pick(r, 15, 2)})
	}
	sc.Horizon = sec(t0 + 15)
	return sc
}

// TestRealDaemonChild: the real program, real clock, no simulator.
func TestRealDaemonChild(t *testing.T) {
	specPath := os.Getenv("VERIF_REAL_SPEC")
	if specPath == "" {
		t.Skip()
	}
	data, _ := os.ReadFile(specPath)
	var spec childSpec
	if err := json.Unmarshal(data, &spec); err != nil {
		t.Fatal(err)
	}
	os.Setenv("VERIF_WORLD_DIR", spec.WorldDir)
	os.Unsetenv("DISPLAY")
	k := kernel.New(spec.Scenario.Seed)
	w, err := world.New(spec.Scenario, k)
	if err != nil {
		t.Fatal(err)
	}
	if err := stage.PreseedDB(w.DBPath(), spec.Scenario.DB); err != nil {
		t.Fatal(err)
	}
	cfgPath := filepath.Join(w.Dir, "fan2go.yaml")
	if err := os.WriteFile(cfgPath, []byte(stage.ConfigYAML(spec.Scenario, w)), 0644); err != nil {
		t.Fatal(err)
	}
	_ = os.WriteFile(filepath.Join(spec.OutDir, "ready"), []byte("1"), 0644)
	os.Args = []string{"fan2go", "-c", cfgPath, "--no-style", "--no-color"}
	cmd.Execute()
}

func runC03Real(t *testing.T, sc *world.Scenario) *check.Result {
	res := check.NewResult(sc.Family, sc.Seed)
	res.ScHash = scHash(sc)
	res.Sample = fmt.Sprintf("rt.c03 seed=%d fans=%s signals=%s", sc.Seed, fanKinds(sc), envSummary(sc))
	worldDir, outDir := l2Dirs()
	defer l2Cleanup(worldDir)
	spec := &childSpec{Scenario: sc, WorldDir: worldDir, OutDir: outDir}
	b, _ := json.Marshal(spec)
	specPath := filepath.Join(outDir, "spec.json")
	_ = os.WriteFile(specPath, b, 0644)
	c := exec.Command(os.Args[0], "-test.run", "^TestRealDaemonChild$", "-test.timeout", "0")
	c.Env = append(os.Environ(), "VERIF_REAL_SPEC="+specPath, "VERIF_JOB=", "VERIF_FAMILY=")
	var stderr bytes.Buffer
	c.Stderr = &stderr
	if err := c.Start(); err != nil {
		res.Harness = err.Error()
		return res
	}
	// wait until the world exists, then count time from there
	for i := 0; i < 200; i++ {
		if _, err := os.Stat(filepath.Join(outDir, "ready")); err == nil {
			break
		}
		time.Sleep(10 * time.Millisecond)
	}
	start := time.Now()
	done := make(chan error, 1)
	go func() { done <- c.Wait() }()
	exited := false
	var waitErr error
	for _, e := range sc.Env {
		d := e.At.D() - time.Since(start)
		if d > 0 {
			select {
			case waitErr = <-done:
				exited = true
			case <-time.After(d):
			}
		}
		if exited {
			break
		}
		sig := syscall.SIGTERM
		if e.Value == 2 {
			sig = syscall.SIGINT
		}
		_ = c.Process.Signal(sig)
		res.Faults["real-signal"]++
	}
	if !exited {
		select {
		case waitErr = <-done:
		case <-time.After(20 * time.Second):
			_ = c.Process.Kill()
			<-done
			res.Violate("C03", "terminates", "terminates real-signal", 0, nil, "the real daemon was still running 20 s after the last real signal")
			return res
		}
	}
	co := &childOut{WorldDir: worldDir, OutDir: outDir, Stderr: stderr.String()}
	if ee, ok := waitErr.(*exec.ExitError); ok {
		co.ExitCode = ee.ExitCode()
	}
	co.PanicMsg, co.PanicSite, _ = classifyPanic(co.Stderr)
	res.Probe("real-daemon-runs")
	nsig := res.Faults["real-signal"]
	sigBase := "signals=" + countClass(nsig)
	if strings.Contains(co.Stderr, "send on closed channel") || co.PanicMsg != "" {
		res.Violate("C03", "orderly-exit", "orderly-exit real-signal panic "+sigBase, 0, nil, "the real daemon died after %d real signal(s): %s %s", nsig, co.PanicMsg, tailStr(co.Stderr, 300))
	} else if co.ExitCode != 0 && co.ExitCode != 1 {
		res.Violate("C03", "orderly-exit", fmt.Sprintf("orderly-exit real-signal status=%d", co.ExitCode), 0, nil, "exit status %d after %d real signal(s): %s", co.ExitCode, nsig, tailStr(co.Stderr, 300))
	}
	for i := range sc.Fans {
		f := &sc.Fans[i]
		pwm, mode := readFinal(worldDir, sc, f)
		res.Probe("fans-judged")
		if !handedBack(f, pwm, mode) {
			res.Violate("C03", "final-state", fmt.Sprintf("final-state real-signal kind=%s origMode=%s", f.Kind, modeClass(f.Driver.InitMode)), 0, nil,
				"after %d real signal(s) fan %s (%s) was left in mode %d at PWM %d (original mode %d, original PWM %d)", nsig, f.ID, f.Kind, mode, pwm, f.Driver.InitMode, f.Driver.InitPwm)
		}
	}
	res.Events = nsig
	res.Nontrivial = true
	res.State(fmt.Sprintf("signals=%d", nsig))
	return res
}
