package worker

import (
	"fmt"
	"os"
	"sort"
	"strings"
	"testing"
	"time"

	"github.com/markusressel/fan2go/zverif/check"
	"github.com/markusressel/fan2go/zverif/kernel"
	"github.com/markusressel/fan2go/zverif/stage"
	"github.com/markusressel/fan2go/zverif/world"
)

// C04 — constant curve value: the request settles at one target, the same for
// every algorithm. One "run" of this family is a batch of simulated
// executions for one (min, max, curve value c, maxChange m, tick) setting:
// fresh starts from several starting requests for each algorithm, plus
// executions with a prior history (arbitrary trajectory, long idling at 0/255).

func init() {
	register(&Family{Name: "c04", Gen: genC04, Run: runC04})
}

func genC04(seed uint64, tier string) *world.Scenario {
	sc, r := baseScenario("c04", seed)
	chip := addChip(sc, "simchip")
	sc.TempWin = 1
	sc.Tick = ms(kernel.Pick(r, 50, 100, 200, 200, 500, 1000, 2000))
	sc.TempPoll = sc.Tick
	if sc.TempPoll.D() < 100*time.Millisecond {
		sc.TempPoll = ms(100)
	}
	sc.RpmPoll = ms(1000)
	lo, hi := 0, 255
	switch r.Intn(4) {
	case 0:
	case 1:
		lo = r.Range(0, 200)
		hi = r.Range(lo+1, 255)
	case 2:
		hi = r.Range(1, 254)
	default:
		lo = r.Range(1, 254)
	}
	c := kernel.Pick(r, 0, 255, r.Range(0, 255), r.Range(0, 255), r.Range(1, 254))
	m := kernel.Pick(r, 1, 2, 3, 5, 10, 25, 60, 255, r.Range(1, 255))
	sc.Params["min"], sc.Params["max"], sc.Params["c"], sc.Params["m"] = float64(lo), float64(hi), float64(c), float64(m)
	sc.Params["starts"] = 6
	sc.Params["idleHours"] = kernel.Pick(r, 0.05, 0.25, 1, 2)
	if tier == "thorough" {
		sc.Params["starts"] = 24
	}
	sc.Params["histSeed"] = float64(r.Intn(1 << 30))
	_, cid := addSensorCurve(sc, r, 0, "file", constTemp(tempForCurve(c)), chip)
	f := world.FanSpec{ID: "f0", Kind: "hwmon", Curve: cid, Chip: chip, Channel: 1, MinPwm: world.IntP(lo), MaxPwm: world.IntP(hi), NeverStop: true}
	f.Plant = world.PlantSpec{MaxRpm: 2000, StartThr: 0, StopThr: 0, TauMs: 100, InitRpm: 1000, MinRpm: 400}
	f.Driver = world.DriverSpec{InitMode: 2, InitPwm: 0, AutoPwm: 100, NoEnable: true}
	im := identityMap()
	f.PwmMap = &im
	preseedRpmCurve(sc, f.ID, linearRpmCurve(0, 255, 2000))
	sc.Fans = append(sc.Fans, f)
	sc.LatMax = world.Dur(200 * time.Microsecond)
	return sc
}

type c04Seq struct {
	req    []int // requests of the cycles in the final constant phase
	curve  int   // curve value of that phase
	all    int   // number of cycles in total
	allReq []int // requests of all cycles of the execution (the curve value changes during the history)
	cyc    []*Cycle
	reason string
}

type c04Rec struct {
	ct     *CycleTracker
	cycles []*Cycle
}

func (o *c04Rec) OnEvent(ev *kernel.Event)                  { o.ct.OnEvent(ev) }
func (o *c04Rec) Finish(st *stage.Stage, res *check.Result) {}

// c04Exec runs one execution: algorithm, starting request, history, then the constant phase of n cycles.
func c04Exec(t *testing.T, base *world.Scenario, algo world.AlgoSpec, start int, hist []world.TempStep, histEnd time.Duration, n int, agg *check.Result) c04Seq {
	sc := base.Clone()
	sc.Fans[0].Algo = algo
	sc.Fans[0].Driver.InitPwm = start
	cTemp := sc.Sensors[0].Prog.Base
	if len(hist) > 0 {
		prog := world.TempProg{Kind: "steps", Base: hist[0].V}
		prog.Steps = append(prog.Steps, hist...)
		prog.Steps = append(prog.Steps, world.TempStep{T: world.Dur(histEnd), V: cTemp})
		sc.Sensors[0].Prog = prog
	}
	startup := 3500*time.Millisecond + 2*sc.TempPoll.D()
	sc.Horizon = world.Dur(startup + histEnd + time.Duration(n+3)*sc.Tick.D())
	rec := &c04Rec{}
	res := runL1(t, sc, func(st *stage.Stage, res *check.Result) []Oracle {
		st.W.Sampler = cycleSampler(st)
		rec.ct = NewCycleTracker(st)
		rec.ct.OnCycle = func(c *Cycle) { rec.cycles = append(rec.cycles, c) }
		return []Oracle{rec}
	})
	agg.Events += res.Events
	agg.VirtualSec += res.VirtualSec
	agg.MultiCh += res.MultiCh
	for k, v := range res.Faults {
		agg.Faults[k] += v
	}
	agg.Hash = mixHash(agg.Hash, res.Hash)
	agg.Interleave = mixHash(agg.Interleave, res.Interleave)
	if res.Harness != "" {
		agg.Harness = res.Harness
	}
	out := c04Seq{all: len(rec.cycles), reason: res.Reason}
	if len(rec.cycles) == 0 {
		return out
	}
	for _, c := range rec.cycles {
		if c.After == nil {
			continue
		}
		// the request of a cycle: what it tried to write (also when the write failed), else what the fan shows
		req := c.After.Pwm
		// (a cycle without a write attempt found the fan at its request already)
		if n := len(c.Writes); n > 0 {
			req = c.Writes[n-1].Value
		}
		out.allReq = append(out.allReq, req)
		out.cyc = append(out.cyc, c)
	}
	last := rec.cycles[len(rec.cycles)-1]
	if last.After == nil {
		return out
	}
	out.curve = last.After.CurveVal
	i := len(rec.cycles)
	for i > 0 && rec.cycles[i-1].After != nil && rec.cycles[i-1].After.CurveVal == out.curve {
		i--
	}
	for _, c := range rec.cycles[i:] {
		out.req = append(out.req, c.After.Pwm)
	}
	return out
}

func mixHash(a, b string) string {
	return fmt.Sprintf("%016x", kernel.Hash64(0, a, b))
}

// settle returns the index from which the sequence stays within band of its
// final value, and that final value; ok=false if the tail (last quarter) is not inside the band.
func settle(seq []int, band int) (idx int, final int, ok bool) {
	if len(seq) == 0 {
		return 0, 0, false
	}
	final = seq[len(seq)-1]
	if band > 0 {
		// steady value of a dead-band sequence: the median of the last quarter
		tail := append([]int(nil), seq[len(seq)*3/4:]...)
		sort.Ints(tail)
		final = tail[len(tail)/2]
	}
	idx = len(seq)
	for idx > 0 && abs(seq[idx-1]-final) <= band {
		idx--
	}
	// settled = at least 40 cycles at the end stay inside the band
	return idx, final, idx <= len(seq)-40
}

func abs(x int) int {
	if x < 0 {
		return -x
	}
	return x
}

func runC04(t *testing.T, sc *world.Scenario) *check.Result {
	res := check.NewResult(sc.Family, sc.Seed)
	res.ScHash = scHash(sc)
	lo, hi, c, m := int(sc.Params["min"]), int(sc.Params["max"]), int(sc.Params["c"]), int(sc.Params["m"])
	res.Sample = fmt.Sprintf("c04 seed=%d min=%d max=%d c=%d m=%d tick=%s idle=%.2fh", sc.Seed, lo, hi, c, m, sc.Tick.D(), sc.Params["idleHours"])
	rng := "restricted"
	if lo == 0 && hi == 255 {
		rng = "full"
	}
	r := kernel.NewRand(uint64(sc.Params["histSeed"]), "c04.hist")
	algos := []world.AlgoSpec{
		{Kind: "direct"},
		{Kind: "direct", MaxChange: world.IntP(m)},
		{Kind: ""}, // default PID
	}
	names := []string{"direct", "direct+limit", "pid(default)"}
	if kernel.NewRand(sc.Seed, "c04.spelling").Bool(0.5) {
		// the same default PID algorithm, asked for with the documented bare word `controlAlgorithm: pid`
		// (decoded by the real text unmarshaller); the plain direct one likewise as `controlAlgorithm: direct`
		algos[2] = world.AlgoSpec{Kind: "pidword"}
		algos[0] = world.AlgoSpec{Kind: "directword"}
	}
	nStarts := int(sc.Params["starts"])
	starts := []int{0, 255, lo, hi}
	for len(starts) < nStarts {
		starts = append(starts, r.Range(0, 255))
	}
	nFresh := 300
	steady := make([]int, 3)
	haveSteady := make([]bool, 3)
	maxSettle := make([]int, 3)
	nByAlgo := make([]int, 3)
	observedC := -1
	for ai, algo := range algos {
		band := 0
		if ai == 2 {
			band = 1
		}
		sig := fmt.Sprintf("algo=%s range=%s", names[ai], rng)
		n := nFresh
		if ai == 1 {
			n += 2 * (255 / m) // a rate-limited loop needs up to 255/m cycles to cross the range
		}
		algoStarts := starts
		if ai == 2 {
			// the PID loop resolves its rounding dead-band through the integral term, i.e. on a time
			// scale of seconds, not cycles: give it 150 virtual seconds (fewer starting requests instead)
			if byTime := int(150 * time.Second / sc.Tick.D()); byTime > n {
				n = min(byTime, 3000)
			}
			if len(algoStarts) > 8 {
				algoStarts = algoStarts[:8]
			}
		}
		nByAlgo[ai] = n
		for _, s0 := range algoStarts {
			seq := c04Exec(t, sc, algo, s0, nil, 0, n, res)
			if res.Harness != "" {
				return res
			}
			if len(seq.req) < n/2 {
				res.Harness = fmt.Sprintf("c04: only %d cycles observed (%s)", len(seq.req), seq.reason)
				return res
			}
			observedC = seq.curve
			res.Probe("fresh-start-executions")
			idx, fin, ok := settle(seq.req, band)
			if !ok {
				res.Violate("C04", "settles", "settles "+sig+" start=fresh", 0, nil,
					"%s, min=%d max=%d curve=%d start=%d: the request does not settle within %d cycles (tail %v)", names[ai], lo, hi, seq.curve, s0, len(seq.req), tailInts(seq.req, 8))
				continue
			}
			if idx > maxSettle[ai] {
				maxSettle[ai] = idx
			}
			if !haveSteady[ai] {
				steady[ai], haveSteady[ai] = fin, true
			} else if ai == 2 && haveSteady[0] {
				// the PID loop may rest anywhere within one step of the direct steady value
				// (rounding dead-band), so two PID executions may differ by two
				if abs(fin-steady[0]) > 1 {
					res.Violate("C04", "pid-equals-direct", "pid-equals-direct range="+rng, 0, nil,
						"min=%d max=%d curve=%d tick=%s start=%d: direct settles at %d, default PID at %d", lo, hi, seq.curve, sc.Tick.D(), s0, steady[0], fin)
				}
			} else if abs(fin-steady[ai]) > band {
				res.Violate("C04", "steady-independent-of-start", "steady-independent-of-start "+sig, 0, nil,
					"%s, min=%d max=%d curve=%d: steady request %d from start %d but %d from another start", names[ai], lo, hi, seq.curve, fin, s0, steady[ai])
			}
			if ai == 1 {
				// rate limit and monotone approach
				for i := 1; i < len(seq.req); i++ {
					if d := abs(seq.req[i] - seq.req[i-1]); d > m {
						res.Violate("C04", "step-bound", "step-bound "+sig, 0, nil,
							"direct+limit m=%d, min=%d max=%d curve=%d start=%d: consecutive requests %d → %d differ by %d", m, lo, hi, seq.curve, s0, seq.req[i-1], seq.req[i], d)
						break
					}
				}
				for i := 2; i < len(seq.req) && i <= idx; i++ {
					a, b := seq.req[i-1]-fin, seq.req[i]-fin
					if abs(b) > abs(a) {
						res.Violate("C04", "monotone-approach", "monotone-approach "+sig, 0, nil,
							"direct+limit m=%d, min=%d max=%d curve=%d start=%d: requests move away from the steady value %d: %d → %d", m, lo, hi, seq.curve, s0, fin, seq.req[i-1], seq.req[i])
						break
					}
				}
			}
		}
	}
	if observedC < 0 {
		res.Harness = "c04: nothing observed"
		return res
	}
	// steady-state relations
	if haveSteady[0] {
		if observedC == 0 && steady[0] != lo {
			res.Violate("C04", "steady-at-curve-0", "steady-at-curve-0 algo=direct range="+rng, 0, nil, "direct, min=%d max=%d: curve 0 settles at %d, want the minimum", lo, hi, steady[0])
		}
		if observedC == 255 && steady[0] != hi {
			res.Violate("C04", "steady-at-curve-255", "steady-at-curve-255 algo=direct range="+rng, 0, nil, "direct, min=%d max=%d: curve 255 settles at %d, want the maximum", lo, hi, steady[0])
		}
		if steady[0] < lo || steady[0] > hi {
			res.Violate("C04", "steady-in-range", "steady-in-range algo=direct range="+rng, 0, nil, "direct, min=%d max=%d curve=%d: steady request %d outside the limits", lo, hi, observedC, steady[0])
		}
	}
	if haveSteady[0] && haveSteady[1] && steady[0] != steady[1] {
		res.Violate("C04", "limit-equals-direct", "limit-equals-direct range="+rng, 0, nil,
			"min=%d max=%d curve=%d m=%d: direct settles at %d, direct with maxPwmChangePerCycle at %d", lo, hi, observedC, m, steady[0], steady[1])
	}
	if haveSteady[0] && haveSteady[2] && abs(steady[0]-steady[2]) > 1 {
		res.Violate("C04", "pid-equals-direct", "pid-equals-direct range="+rng, 0, nil,
			"min=%d max=%d curve=%d tick=%s: direct settles at %d, default PID at %d", lo, hi, observedC, sc.Tick.D(), steady[0], steady[2])
	}
	// the end points of every setting: curve 0 settles at the minimum, curve 255 at the maximum (direct algorithm)
	for _, ce := range []int{0, 255} {
		if ce == observedC {
			continue
		}
		sce := sc.Clone()
		sce.Sensors[0].Prog = constTemp(tempForCurve(ce))
		seq := c04Exec(t, sce, algos[0], r.Range(0, 255), nil, 0, 60, res)
		if res.Harness != "" {
			return res
		}
		want := lo
		if ce == 255 {
			want = hi
		}
		if _, fin, ok := settle(seq.req, 0); ok && seq.curve == ce {
			res.Probe("end-point-executions")
			if fin != want {
				res.Violate("C04", fmt.Sprintf("steady-at-curve-%d", ce), fmt.Sprintf("steady-at-curve-%d algo=direct range=%s", ce, rng), 0, nil,
					"direct, min=%d max=%d: curve %d settles at %d, want %d", lo, hi, ce, fin, want)
			}
		} else {
			res.Probe("end-point-unjudged")
		}
	}
	// monotone in the curve value: one more curve value c2 > c for the direct algorithm
	if c < 255 && haveSteady[0] {
		c2 := c + r.Range(1, 255-c)
		sc2 := sc.Clone()
		sc2.Sensors[0].Prog = constTemp(tempForCurve(c2))
		seq := c04Exec(t, sc2, algos[0], lo, nil, 0, 200, res)
		if _, fin, ok := settle(seq.req, 0); ok && seq.curve > observedC && fin < steady[0] {
			res.Violate("C04", "steady-monotone-in-curve", "steady-monotone-in-curve range="+rng, 0, nil,
				"direct, min=%d max=%d: curve %d settles at %d but the higher curve value %d at %d", lo, hi, observedC, steady[0], seq.curve, fin)
		}
		res.Probe("monotone-pair")
	}
	// histories: arbitrary trajectory, and long idling at curve 0 / 255
	type histCase struct {
		name string
		hist []world.TempStep
		end  time.Duration
	}
	var cases []histCase
	{
		var h []world.TempStep
		tt := time.Duration(0)
		n := r.Range(3, 12)
		for i := 0; i < n; i++ {
			h = append(h, world.TempStep{T: world.Dur(tt), V: tempForCurve(r.Range(0, 255))})
			tt += time.Duration(r.Range(1, 40)) * sc.Tick.D()
		}
		cases = append(cases, histCase{"trajectory", h, tt})
	}
	{
		// one control cycle of the history is late by 6-60 s (a hanging driver read, a stopped process)
		// while the loop rests at the history's curve value: the algorithm's memory of it must be as
		// bounded as that of any other history. (A late cycle that coincides with a large error winds the
		// integral up by error x delay; that is a schedule irregularity outside the property's quantifier
		// over curve trajectories and is not judged - see DESIGN.md 13.6.)
		tt := 280 * sc.Tick.D()
		h := []world.TempStep{{T: 0, V: tempForCurve(r.Range(0, 255))}}
		cases = append(cases, histCase{fmt.Sprintf("late-cycle:%d", kernel.Pick(r, 6000, 8000, 15000, 60000)), h, tt})
	}
	idle := time.Duration(sc.Params["idleHours"] * float64(time.Hour))
	// cap the number of idle cycles to keep one execution bounded
	if maxIdle := 3000 * sc.Tick.D(); idle > maxIdle {
		idle = maxIdle
	}
	cases = append(cases,
		histCase{"idle-at-255", []world.TempStep{{T: 0, V: tempForCurve(255)}}, idle},
		histCase{"idle-at-0", []world.TempStep{{T: 0, V: tempForCurve(0)}}, idle})
	for ai, algo := range algos {
		band := 0
		if ai == 2 {
			band = 1
		}
		if !haveSteady[ai] {
			continue
		}
		// the calibration set also contains executions with a SHORT prior history (bounded memory by
		// construction): a few cycles at another curve value, then the constant one
		for k := 0; k < 3; k++ {
			pre := time.Duration(r.Range(5, 30)) * sc.Tick.D()
			h := []world.TempStep{{T: 0, V: tempForCurve(kernel.Pick(r, 0, 255, r.Range(0, 255)))}}
			seq := c04Exec(t, sc, algo, r.Range(0, 255), h, pre, nByAlgo[ai], res)
			if res.Harness != "" {
				return res
			}
			if idx, _, ok := settle(seq.req, band); ok && seq.curve == observedC && idx > maxSettle[ai] {
				maxSettle[ai] = idx
			}
			res.Probe("calibration-executions(short history)")
		}
		bound := 5*maxSettle[ai] + 50
		if ai == 2 {
			// the default PID loop resolves a residual error of a step or two through its integral term:
			// one output step takes up to 1/(I*dt) cycles (I = 0.02, the documented default gain), whatever
			// happened before. A self-calibrated bound below that time scale only measures whether the
			// calibration executions happened to end inside the rounding dead-band.
			if tInt := int(1/(0.02*sc.Tick.D().Seconds())) + 50; tInt > bound {
				bound = tInt
			}
		}
		sig := fmt.Sprintf("algo=%s range=%s", names[ai], rng)
		for _, hc := range cases {
			if ai != 2 && hc.name != "trajectory" && r.Bool(0.5) {
				continue // the stateless algorithms get fewer long-idle executions
			}
			esc, hname := sc, hc.name
			if strings.HasPrefix(hc.name, "late-cycle:") {
				// a PWM read of a control cycle between the 60th and the 200th hangs for that long
				esc = sc.Clone()
				esc.Faults = append(esc.Faults, world.FaultSpec{Op: "read", Target: "fan:" + sc.Fans[0].ID + ":pwm", Nth: r.Range(120, 200), Count: 1, Kind: "delay:" + hc.name[len("late-cycle:"):], OnlyFlags: "upd,3rd"})
				hname = "late-cycle"
			}
			if ai == 1 && hname == "trajectory" && kernel.NewRand(sc.Seed, "c04.writefault").Bool(0.6) {
				// one write (or two) of the ramping, rate-limited loop is refused by the driver (EBUSY / EIO)
				esc = sc.Clone()
				wr := kernel.NewRand(sc.Seed, "c04.writefault.at")
				esc.Faults = append(esc.Faults, world.FaultSpec{Op: "write", Target: "fan:" + sc.Fans[0].ID + ":pwm", Nth: wr.Range(1, 60), Count: kernel.Pick(wr, 1, 1, 2), Kind: kernel.Pick(wr, "ebusy", "error"), OnlyFlags: "upd"})
				hname = "trajectory+refused-write"
			}
			hend := hc.end
			if hname == "late-cycle" {
				hend += 70 * time.Second // the constant phase begins after the late cycle in any case
			}
			seq := c04Exec(t, esc, algo, r.Range(0, 255), hc.hist, hend, max(bound+200, nByAlgo[ai]), res)
			if res.Harness != "" {
				return res
			}
			hc.name = hname
			res.Probe("history-executions:" + hc.name)
			if ai == 1 {
				// the rate limit holds between any two consecutive requests, also while the curve value changes
				res.Probe("rate-limited-executions-with-changing-curve-value")
				for i := 1; i < len(seq.allReq); i++ {
					if d := abs(seq.allReq[i] - seq.allReq[i-1]); d > m {
						if os.Getenv("VERIF_C04_DUMP") != "" {
							for j := max(0, i-3); j <= min(len(seq.cyc)-1, i+1); j++ {
								c := seq.cyc[j]
								fmt.Fprintf(os.Stderr, "DUMP cycle %d: before=%+v writes=%+v reads=%+v after=%+v\n", j, c.Before, c.Writes, c.PwmReads, c.After)
							}
						}
						res.Violate("C04", "step-bound", "step-bound "+sig+" history="+hc.name, 0, nil,
							"direct+limit m=%d, min=%d max=%d, history %s: consecutive requests %d → %d (cycles %d, %d) differ by %d", m, lo, hi, hc.name, seq.allReq[i-1], seq.allReq[i], i-1, i, d)
						break
					}
				}
			}
			if seq.curve != observedC || len(seq.req) < bound {
				res.Probe("history-unjudged")
				continue
			}
			idx, fin, ok := settle(seq.req, band)
			if os.Getenv("VERIF_C04_DUMP") != "" {
				fmt.Fprintf(os.Stderr, "DUMP %s %s idx=%d bound=%d maxSettle=%d seq=%v\n", names[ai], hc.name, idx, bound, maxSettle[ai], seq.req[:min(len(seq.req), 160)])
			}
			if !ok || idx > bound {
				res.Violate("C04", "settle-independent-of-history", "settle-independent-of-history "+sig+" history="+hc.name, 0, nil,
					"%s, min=%d max=%d curve=%d tick=%s after %s (%s): not settled within %d cycles (fresh starts settle within %d); settled index %d of %d, tail %v",
					names[ai], lo, hi, observedC, sc.Tick.D(), hc.name, hc.end, bound, maxSettle[ai], idx, len(seq.req), tailInts(seq.req, 6))
				continue
			}
			ref := steady[ai]
			if ai == 2 && haveSteady[0] {
				ref = steady[0]
			}
			if abs(fin-ref) > band {
				res.Violate("C04", "steady-independent-of-history", "steady-independent-of-history "+sig+" history="+hc.name, 0, nil,
					"%s, min=%d max=%d curve=%d after %s: steady request %d, reference steady value %d", names[ai], lo, hi, observedC, hc.name, fin, ref)
			}
		}
	}
	res.Reason = "batch"
	res.Nontrivial = res.Probes["fresh-start-executions"] > 0
	res.State(fmt.Sprintf("range=%s|c=%s|tick=%s", rng, cClass(observedC), sc.Tick.D()))
	return res
}

func cClass(c int) string {
	switch {
	case c == 0:
		return "0"
	case c == 255:
		return "255"
	}
	return "mid"
}

func tailInts(a []int, n int) []int {
	if len(a) > n {
		return a[len(a)-n:]
	}
	return a
}
