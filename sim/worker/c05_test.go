package worker

import (
	"fmt"
	"strings"
	"testing"

	"github.com/markusressel/fan2go/zverif/check"
	"github.com/markusressel/fan2go/zverif/kernel"
	"github.com/markusressel/fan2go/zverif/stage"
	"github.com/markusressel/fan2go/zverif/world"
)

// C05 — external interference is undone within one control cycle.

func init() {
	register(&Family{Name: "c05", Gen: genC05, Run: runC05})
}

func genC05(seed uint64, tier string) *world.Scenario {
	sc, r := baseScenario("c05", seed)
	chip := addChip(sc, "simchip")
	nf := r.Range(1, 2)
	sc.TempWin = kernel.Pick(r, 1, 1, 2)
	interf := !r.Bool(0.25) // a quarter of the runs have no third party at all (zero-count clause)
	if !interf {
		sc.Variant = "quiet"
	} else {
		sc.Variant = "interference"
	}
	horizon := 14.0 + float64(r.Range(0, 10))
	sc.Horizon = sec(horizon)
	for i := 0; i < nf; i++ {
		// piecewise constant temperature: 1-3 plateaus
		v0 := r.Range(0, 255)
		prog := world.TempProg{Kind: "steps", Base: tempForCurve(v0)}
		np := r.Range(0, 2)
		for j := 0; j < np; j++ {
			prog.Steps = append(prog.Steps, world.TempStep{T: sec(6 + float64(r.Range(0, int(horizon)-8))), V: tempForCurve(r.Range(0, 255))})
		}
		sortSteps(prog.Steps)
		_, cid := addSensorCurve(sc, r, i, kernel.Pick(r, "hwmon", "hwmon", "file"), prog, chip)
		fkind := kernel.Pick(r, "hwmon", "hwmon", "hwmon", "file")
		f := world.FanSpec{ID: fmt.Sprintf("f%d", i), Kind: fkind, Curve: cid, Chip: chip, Channel: i + 1}
		f.Plant = defaultPlant(r)
		f.Driver = world.DriverSpec{InitMode: kernel.Pick(r, 0, 2, 2, 5), InitPwm: r.Range(0, 255), AutoPwm: 120, NoEnable: fkind != "hwmon"}
		switch r.Intn(4) {
		case 0:
			f.Algo = world.AlgoSpec{Kind: "direct"}
		case 1:
			f.Algo = world.AlgoSpec{Kind: "direct", MaxChange: world.IntP(r.Range(1, 60))}
		case 2:
			f.Algo = world.AlgoSpec{Kind: "pid", P: 0.3, I: 0.02, D: 0.005}
		default:
			f.Algo = world.AlgoSpec{Kind: "direct"}
		}
		// limits
		if r.Bool(0.5) && fkind == "hwmon" {
			lo := r.Range(0, 100)
			hi := r.Range(lo+1, 255)
			f.MinPwm, f.MaxPwm = world.IntP(lo), world.IntP(hi)
			f.NeverStop = r.Bool(0.5)
		}
		// PWM map kinds under which the fan reads back what was written
		mapKind := r.Intn(3)
		if or := kernel.NewRand(seed, fmt.Sprintf("c05.offsetmap.%d", i)); or.Bool(0.25) {
			// a user map whose outputs differ from its keys (the fan needs an offset): key k -> k+c; with a
			// rate limit of c (or a PID creeping by a few steps) the fan often shows exactly the next KEY
			mapKind = 3
			c := kernel.Pick(or, 1, 2, 3, 5, 10)
			m := map[int]int{}
			for k := 0; k <= 255; k++ {
				m[k] = min(255, k+c)
			}
			f.PwmMap = &m
			if or.Bool(0.6) {
				f.Algo = world.AlgoSpec{Kind: "direct", MaxChange: world.IntP(c)}
			}
		}
		switch mapKind {
		case 0: // identity, discovered by the sweep
		case 1: // sparse user map, outputs = keys' images read back as written
			m := map[int]int{}
			n := r.Range(2, 9)
			for j := 0; j < n; j++ {
				k := r.Range(0, 255)
				m[k] = k
			}
			m[0], m[255] = 0, 255
			// make some outputs differ from keys but strictly increasing
			f.PwmMap = &m
		case 2: // idempotent quantiser, map discovered by the sweep
			f.Driver.Quant = "mult"
			f.Driver.K = kernel.Pick(r, 2, 5, 16, 51)
			f.Driver.InitPwm = f.Driver.InitPwm / f.Driver.K * f.Driver.K
		}
		if fkind == "hwmon" {
			preseedRpmCurve(sc, f.ID, linearRpmCurve(f.Plant.StartThr, 255, f.Plant.MaxRpm))
		}
		if fr := kernel.NewRand(seed, fmt.Sprintf("c05.firstread.%d", i)); fr.Bool(0.15) {
			// the very first read of the PWM value fails (driver not ready yet): everything after it is normal,
			// and third-party changes are counted like on any other fan
			sc.Faults = append(sc.Faults, world.FaultSpec{Op: "read", Target: "fan:" + f.ID + ":pwm", Nth: 0, Count: 1, Kind: kernel.Pick(fr, "eio", "empty", "garbage")})
		}
		sc.Fans = append(sc.Fans, f)
		if interf {
			ne := r.Range(1, 3)
			for j := 0; j < ne; j++ {
				e := world.EnvEvent{Fan: f.ID}
				pick := r.Intn(3)
				if fkind != "hwmon" {
					pick = 1 // no control mode to interfere with
				}
				switch pick {
				case 0:
					e.Kind, e.Value = "3rd.mode", kernel.Pick(r, 0, 2, 3)
				case 1:
					e.Kind, e.Value = "3rd.pwm", r.Range(0, 255)
				default:
					e.Kind, e.Value = "3rd.pwm", r.Range(0, 255)
					sc.Env = append(sc.Env, world.EnvEvent{Fan: f.ID, Kind: "3rd.mode", Value: kernel.Pick(r, 0, 2, 3), At: 0, AtSeq: -1 - j})
				}
				if f.Driver.Quant == "mult" && e.Kind == "3rd.pwm" {
					e.Value = e.Value / f.Driver.K * f.Driver.K // firmware writes also go through the driver
				}
				e.At = sec(7 + float64(j)*2.5 + r.Float()*2)
				sc.Env = append(sc.Env, e)
				if br := kernel.NewRand(seed, fmt.Sprintf("c05.blind.%d.%d", i, j)); e.Kind == "3rd.pwm" && fkind != "cmd" && br.Bool(0.3) {
					// ... and right after the interference the PWM attribute cannot be read for a cycle or a few
					// (firmware busy after a resume): fan2go cannot see the foreign value, it can still write its own
					sc.Faults = append(sc.Faults, world.FaultSpec{Op: "read", Target: "fan:" + f.ID + ":pwm", After: e.At, Nth: 0, Count: kernel.Pick(br, 1, 2, 3, 6, 12),
						Kind: kernel.Pick(br, "eio", "ebusy", "eagain", "empty"), OnlyFlags: "upd"})
				}
			}
		}
	}
	// resolve paired mode events (AtSeq<0 marker): same instant as the following pwm event
	var env []world.EnvEvent
	for i := 0; i < len(sc.Env); i++ {
		e := sc.Env[i]
		if e.AtSeq < 0 {
			e.AtSeq = 0
			if i+1 < len(sc.Env) {
				e.At = sc.Env[i+1].At
			}
		}
		env = append(env, e)
	}
	sc.Env = env
	// some interference is bound to a decision index instead of a time, to land inside cycles
	if interf && r.Bool(0.5) {
		for i := range sc.Env {
			if r.Bool(0.5) {
				// decisions per second is roughly 10/tick; place by index in the regulating phase
				sc.Env[i].AtSeq = 900 + r.Range(0, 1500)
				sc.Env[i].At = 0
			}
		}
	}
	return sc
}

func sortSteps(s []world.TempStep) {
	for i := 1; i < len(s); i++ {
		for j := i; j > 0 && s[j].T < s[j-1].T; j-- {
			s[j], s[j-1] = s[j-1], s[j]
		}
	}
}

type c05Interf struct {
	seq   int
	role  string // pwm | mode
	value int
	old   int
}

type c05Oracle struct {
	st     *stage.Stage
	res    *check.Result
	ct     *CycleTracker
	cycles map[string][]*Cycle
	interf map[string][]c05Interf
}

func (o *c05Oracle) OnEvent(ev *kernel.Event) {
	if ev.Kind == "env" && strings.HasPrefix(ev.Site, "3rd.") {
		role := "pwm"
		if strings.HasPrefix(ev.Site, "3rd.mode") {
			role = "mode"
		}
		old := -1
		fmt.Sscanf(ev.Out, "old=%d", &old)
		o.interf[ev.ID] = append(o.interf[ev.ID], c05Interf{seq: ev.Seq, role: role, value: ev.Val, old: old})
	}
	o.ct.OnEvent(ev)
}

func (o *c05Oracle) Finish(st *stage.Stage, res *check.Result) {
	quiet := len(st.Sc.Env) == 0
	for _, fs := range st.Sc.Fans {
		cycles := o.cycles[fs.ID]
		if len(cycles) == 0 {
			res.Harness = "c05: no control cycle observed for " + fs.ID
			return
		}
		res.ProbeN("cycles", len(cycles))
		sigBase := fmt.Sprintf("fan=%s algo=%s", fs.Kind, algoName(&fs))
		if quiet {
			// no third party, no write faults: the counter stays 0 from the first cycle on
			for _, c := range cycles {
				if c.After != nil && c.After.Unexp != 0 {
					res.Violate("C05", "zero-count", "zero-count "+sigBase+" map="+mapKind(&fs), c.EndPSeq, c.EndT,
						"fan %s: third-party counter is %d after cycle %d although nothing else touched the fan", fs.ID, c.After.Unexp, c.Index)
					break
				}
			}
			res.Probe("quiet-run")
			continue
		}
		its := o.interf[fs.ID]
		for i, it := range its {
			// group interference events that are adjacent (mode+pwm pair): judge at the last of a burst
			var pre *Cycle
			var inCycle bool
			var n *Cycle
			for _, c := range cycles {
				if c.EndPSeq <= it.seq {
					pre = c
				}
				if c.StartSeq < it.seq && it.seq < c.EndPSeq {
					inCycle = true
				}
				if c.StartSeq > it.seq && n == nil {
					n = c
				}
			}
			if n == nil || pre == nil || n.After == nil || pre.After == nil {
				res.Probe("interference-unjudged(no cycle after/before)")
				continue
			}
			// "while fan2go regulates the fan": the cycle after the interference must not be the fan's last one (a
			// cycle that ends in a control error - a never-stop fan stalled at its maximum, say - is followed by
			// the hand-back to the original mode, which is C03's business)
			later := false
			for _, c := range cycles {
				if c.StartSeq > n.StartSeq {
					later = true
				}
			}
			if !later {
				res.Probe("interference-unjudged(regulation of the fan ended with that cycle)")
				continue
			}
			// other interference between pre's end and n's end on this fan?
			burst := []c05Interf{}
			for _, other := range its {
				if other.seq >= pre.EndPSeq && other.seq < n.EndPSeq {
					burst = append(burst, other)
				}
			}
			if burst[len(burst)-1].seq != it.seq {
				continue // judged at the last event of the burst
			}
			_ = i
			res.Probe("interference-judged")
			if inCycle {
				res.Probe("interference-inside-cycle")
			} else {
				res.Probe("interference-between-cycles")
			}
			// (a) manual mode re-asserted
			if fs.Driver.NoEnable == false {
				if n.After.Mode != 1 {
					res.Violate("C05", "mode-reasserted", "mode-reasserted "+sigBase, n.EndPSeq, n.EndT,
						"fan %s: third party set mode/pwm at seq %d; after the next full cycle (#%d) pwm_enable is %d, want 1", fs.ID, it.seq, n.Index, n.After.Mode)
				}
			}
			// (b) PWM value undone
			pwmChanged := false
			lastPwm := -1
			nPwmEvents := 0
			for _, b := range burst {
				if b.role == "pwm" {
					nPwmEvents++
					lastPwm = b.value
					if b.value != b.old {
						pwmChanged = true
					}
				}
			}
			if nPwmEvents > 0 && pwmChanged {
				// writes after the interference up to the end of cycle n
				var lastW *WriteRec
				for _, c := range cycles {
					if c.EndPSeq > it.seq && c.StartSeq <= n.StartSeq {
						for k := range c.Writes {
							w := &c.Writes[k]
							if w.Seq > it.seq && w.Err == "" {
								lastW = w
							}
						}
					}
				}
				if lastW == nil {
					if n.After.Pwm == lastPwm {
						// only legitimate if the target dictates exactly the third party's value:
						// then later cycles (same curve value) leave it untouched as well
						res.Probe("interference-value-equals-target?")
						if directNoLimit(&fs) && n.After.CurveVal == pre.After.CurveVal && pre.After.Pwm != lastPwm {
							res.Violate("C05", "pwm-restored", "pwm-restored "+sigBase+" map="+mapKind(&fs), n.EndPSeq, n.EndT,
								"fan %s: third party changed PWM %d→%d at seq %d; cycle #%d neither wrote nor is the value the target (was %d for the same curve value %d)",
								fs.ID, burst[0].old, lastPwm, it.seq, n.Index, pre.After.Pwm, pre.After.CurveVal)
						}
					}
				} else {
					want := world.Quantise(&fs.Driver, lastW.Value)
					if n.After.Pwm != want {
						res.Violate("C05", "pwm-holds-written", "pwm-holds-written "+sigBase, n.EndPSeq, n.EndT,
							"fan %s: after cycle #%d the PWM file holds %d, last regulating write was %d", fs.ID, n.Index, n.After.Pwm, lastW.Value)
					}
				}
				// a neverStop fan whose rotor stands still is being raised: the request of a raise cycle (old
				// request + 1) is not what the next cycle asks for, so "the same value as before" only holds
				// while the fan reports rotation
				spinning := !fs.NeverStop || (pre.After.RpmAvg >= 1 && n.Before != nil && n.Before.RpmAvg >= 1 && n.After.RpmAvg >= 1)
				if pre.Before == nil || pre.Before.Raises != pre.After.Raises || n.After.Raises != pre.After.Raises {
					// the cycle before the interference (or the one after it) was itself a raise cycle: its request is
					// "old request + 1", not the value the curve and the new floor dictate from then on (a rolling
					// RPM average that hovers around 1 passes for rotation otherwise)
					spinning = false
				}
				if directNoLimit(&fs) && n.After.CurveVal == pre.After.CurveVal && n.Before != nil && spinning {
					res.Probe("exact-restore-clause")
					if n.After.Pwm != pre.After.Pwm {
						res.Violate("C05", "pwm-restored", "pwm-restored "+sigBase+" map="+mapKind(&fs), n.EndPSeq, n.EndT,
							"fan %s: third party changed PWM to %d at seq %d; with unchanged curve value %d the fan had %d before and has %d after the next full cycle (#%d)",
							fs.ID, lastPwm, it.seq, pre.After.CurveVal, pre.After.Pwm, n.After.Pwm, n.Index)
					}
				}
			}
			// (c) counter
			delta := n.After.Unexp - pre.After.Unexp
			switch {
			case nPwmEvents == 0:
				if delta != 0 {
					res.Violate("C05", "count-mode-only", "count-mode-only "+sigBase, n.EndPSeq, n.EndT,
						"fan %s: only the mode was changed by the third party, counter grew by %d", fs.ID, delta)
				}
			case !pwmChanged:
				if delta != 0 {
					res.Violate("C05", "count-unchanged-value", "count-unchanged-value "+sigBase, n.EndPSeq, n.EndT,
						"fan %s: third party wrote the value already present, counter grew by %d", fs.ID, delta)
				}
			case nPwmEvents == 1 && !inCycle && noBurstInCycle(burst, cycles):
				// (a cycle that could not read the PWM value cannot see the foreign one: it may count or not)
				blindRead := false
				for _, c := range cycles {
					if c.EndPSeq > it.seq && c.StartSeq <= n.StartSeq {
						for _, rd := range c.PwmReads {
							if rd.Err != "" {
								blindRead = true
							}
						}
					}
				}
				if blindRead {
					res.Probe("interference-followed-by-unreadable-pwm")
				}
				if delta != 1 && !(blindRead && delta == 0) {
					res.Violate("C05", "count-once", "count-once "+sigBase+" map="+mapKind(&fs), n.EndPSeq, n.EndT,
						"fan %s: one third-party PWM change (%d→%d) between cycles, counter grew by %d, want 1", fs.ID, burst[0].old, lastPwm, delta)
				}
				res.Probe("count-once-clause")
			default:
				if delta < 0 || delta > nPwmEvents {
					res.Violate("C05", "count-range", "count-range "+sigBase, n.EndPSeq, n.EndT,
						"fan %s: %d third-party PWM changes, counter grew by %d", fs.ID, nPwmEvents, delta)
				}
			}
		}
		// outside interference windows the counter must not move
		for idx := 1; idx < len(cycles); idx++ {
			a, b := cycles[idx-1], cycles[idx]
			if a.After == nil || b.After == nil || b.After.Unexp == a.After.Unexp {
				continue
			}
			touched := false
			for _, it := range its {
				if it.seq >= a.StartSeq && it.seq < b.EndPSeq {
					touched = true
				}
			}
			// also the cycle right after an in-cycle interference
			if idx >= 2 {
				for _, it := range its {
					if it.seq >= cycles[idx-2].StartSeq && it.seq < b.EndPSeq {
						touched = true
					}
				}
			}
			if !touched {
				res.Violate("C05", "count-spurious", "count-spurious "+sigBase+" map="+mapKind(&fs), b.EndPSeq, b.EndT,
					"fan %s: counter grew %d→%d in cycle #%d with no third-party event nearby", fs.ID, a.After.Unexp, b.After.Unexp, b.Index)
				break
			}
		}
	}
	res.Nontrivial = res.Probes["interference-judged"] > 0 || res.Probes["quiet-run"] > 0
	for _, fs := range st.Sc.Fans {
		res.State(fmt.Sprintf("%s|%s|%s|judged=%d", algoName(&fs), mapKind(&fs), st.Sc.Variant, min(res.Probes["interference-judged"], 3)))
	}
}

func noBurstInCycle(burst []c05Interf, cycles []*Cycle) bool {
	for _, b := range burst {
		for _, c := range cycles {
			if c.StartSeq < b.seq && b.seq < c.EndPSeq {
				return false
			}
		}
	}
	return true
}

func directNoLimit(f *world.FanSpec) bool { return f.Algo.Kind == "direct" && f.Algo.MaxChange == nil }

func algoName(f *world.FanSpec) string {
	switch f.Algo.Kind {
	case "direct":
		if f.Algo.MaxChange != nil {
			return "direct+limit"
		}
		return "direct"
	case "pid":
		return "pid"
	case "legacy":
		return "pid(legacy)"
	}
	return "pid(default)"
}

func mapKind(f *world.FanSpec) string {
	if f.PwmMap != nil {
		return "config"
	}
	if f.Driver.Quant != "" {
		return "quantised"
	}
	return "identity"
}

func runC05(t *testing.T, sc *world.Scenario) *check.Result {
	return runL1(t, sc, func(st *stage.Stage, res *check.Result) []Oracle {
		st.W.Sampler = cycleSampler(st)
		o := &c05Oracle{st: st, res: res, ct: NewCycleTracker(st), cycles: map[string][]*Cycle{}, interf: map[string][]c05Interf{}}
		o.ct.OnCycle = func(c *Cycle) { o.cycles[c.Fan] = append(o.cycles[c.Fan], c) }
		return []Oracle{o}
	})
}
