package worker

import (
	"fmt"
	"math"
	"sync/atomic"
	"testing"
	"time"

	"github.com/markusressel/fan2go/zverif/check"
	"github.com/markusressel/fan2go/zverif/kernel"
	"github.com/markusressel/fan2go/zverif/refmodel"
	"github.com/markusressel/fan2go/zverif/stage"
	"github.com/markusressel/fan2go/zverif/world"
)

// C06 — curves evaluate to their documented function (active evaluator, L0):
// a harness task sets sensor states from the extreme set and calls Evaluate on
// generated curve graphs in virtual time; every reachable curve's value is
// compared with the reference semantics.
// C07 — hotter never means slower: dense temperature sweeps over monotone
// curve graphs (L0) and temperature ramps through the closed loop (L1).

func init() {
	register(&Family{Name: "c06", Gen: func(seed uint64, tier string) *world.Scenario { return genCurves("c06", seed, false) }, Run: runC06})
	register(&Family{Name: "c06conc", Gen: genC06Conc, Run: runC06Conc})
	register(&Family{Name: "c07", Gen: func(seed uint64, tier string) *world.Scenario { return genCurves("c07", seed, true) }, Run: runC07})
	register(&Family{Name: "c07loop", Gen: genC07Loop, Run: runC07Loop})
	register(&Family{Name: "c07conc", Gen: func(seed uint64, tier string) *world.Scenario { return genSharedGraph("c07conc", seed, true) }, Run: runC07Conc})
	register(&Family{Name: "c07twin", Gen: genC07Twin, Run: runC07Twin})
}

var sensorExtremes = []float64{-1e300, -5e6, -273150, -1000, -1, 0, 1, 999, 1000, 1001, 19999, 20000, 20001, 49999.5, 50000, 79999, 80000, 80001, 150000, 1e9, 1e300}

func genCurves(fam string, seed uint64, monotone bool) *world.Scenario {
	sc, r := baseScenario(fam, seed)
	sc.NoControllers, sc.NoMonitors = true, true
	sc.Horizon = sec(600000) // nothing is periodic in these worlds: virtual days cost nothing
	sc.LatMin, sc.LatMax = world.Dur(time.Microsecond), world.Dur(300*time.Microsecond)
	ns := r.Range(1, 4)
	for i := 0; i < ns; i++ {
		sc.Sensors = append(sc.Sensors, world.SensorSpec{ID: fmt.Sprintf("s%d", i), Kind: "file", Prog: constTemp(r.Range(0, 90000))})
	}
	nLeaf := r.Range(1, 6)
	var ids []string
	var mono []bool
	for i := 0; i < nLeaf; i++ {
		c := world.CurveSpec{ID: fmt.Sprintf("l%d", i), Sensor: sc.Sensors[r.Intn(ns)].ID}
		k := r.Intn(3)
		if monotone && k == 2 {
			k = r.Intn(2)
		}
		switch k {
		case 0:
			c.Kind = "linear"
			c.Min = r.Range(-20, 90)
			c.Max = c.Min + r.Range(1, 80)
		case 1:
			c.Kind = "steps"
			c.Steps = map[int]float64{}
			n := r.Range(1, 8)
			prev := 0
			for j := 0; j < n; j++ {
				t := r.Range(-30, 120)
				v := r.Range(0, 255)
				if monotone {
					v = 0
				}
				c.Steps[t] = float64(v)
			}
			if monotone {
				// non-decreasing speeds in temperature order
				ts := make([]int, 0, len(c.Steps))
				for t := range c.Steps {
					ts = append(ts, t)
				}
				sortInts(ts)
				for _, t := range ts {
					prev = min(255, prev+kernel.Pick(r, 0, 0, 1, 7, 40, 120))
					c.Steps[t] = float64(prev)
				}
			}
		case 2:
			c.Kind = "pid"
			c.PID = &world.PidSpec{SetPoint: float64(r.Range(20, 80)), P: (r.Float() - 0.7) * kernel.Pick(r, 0.1, 1.0, 10.0), I: (r.Float() - 0.7) * 0.05, D: (r.Float() - 0.5) * 0.02}
		}
		sc.Curves = append(sc.Curves, c)
		ids = append(ids, c.ID)
		mono = append(mono, c.Kind != "pid")
	}
	// function curves, nested up to depth 4; PID leaves get at most one parent
	usedPid := map[string]bool{}
	depth := map[string]int{}
	nf := r.Range(0, 6)
	types := []string{"sum", "difference", "delta", "minimum", "maximum", "average"}
	if monotone {
		types = []string{"sum", "minimum", "maximum", "average"}
	}
	for i := 0; i < nf; i++ {
		c := world.CurveSpec{ID: fmt.Sprintf("f%d", i), Kind: "function", Func: kernel.Pick(r, types...)}
		n := r.Range(1, 8)
		d := 0
		for j := 0; j < n; j++ {
			m := ids[r.Intn(len(ids))]
			if reaches(sc, m, "pid") {
				// a curve whose value depends on a PID leaf changes with every evaluation:
				// it gets exactly one parent reference
				if usedPid[m] {
					continue
				}
				usedPid[m] = true
			}
			if depth[m]+1 > 3 {
				continue
			}
			c.Members = append(c.Members, m)
			if depth[m]+1 > d {
				d = depth[m] + 1
			}
		}
		if len(c.Members) == 0 {
			if reaches(sc, "l0", "pid") && usedPid["l0"] {
				continue
			}
			c.Members = []string{"l0"}
			usedPid["l0"] = true
			d = 1
		}
		depth[c.ID] = d
		sc.Curves = append(sc.Curves, c)
		ids = append(ids, c.ID)
	}
	sc.Params["evals"] = float64(r.Range(20, 60))
	if or := kernel.NewRand(seed, "c06.fileorder"); or.Bool(0.5) {
		// the order of the entries in the file is the user's: a function curve may well be written above its
		// members (references are by id; the validator checks them over the whole list)
		for i := len(sc.Curves) - 1; i > 0; i-- {
			j := or.Intn(i + 1)
			sc.Curves[i], sc.Curves[j] = sc.Curves[j], sc.Curves[i]
		}
		sc.Variant += "|curves-in-any-file-order"
	}
	return sc
}

func isPid(sc *world.Scenario, id string) bool {
	for _, c := range sc.Curves {
		if c.ID == id {
			return c.Kind == "pid"
		}
	}
	return false
}

type pidRef struct {
	init     bool
	lastT    time.Duration
	integral float64
	prevErr  float64
}

type evalRecord struct {
	Root    string             `json:"root"`
	Value   int                `json:"value"`
	Err     string             `json:"err,omitempty"`
	Avgs    map[string]float64 `json:"avgs"`
	Values  map[string]int     `json:"values"` // CurrentValue of every curve after the evaluation
	FromSeq int                `json:"fromSeq"`
}

type c06Oracle struct {
	st    *stage.Stage
	res   *check.Result
	spec  map[string]*world.CurveSpec
	pid   map[string]*pidRef
	reads []*kernel.Event // sensor reads issued from curve evaluations, in order
	seen  map[string]bool
}

func (o *c06Oracle) OnEvent(ev *kernel.Event) {
	if ev.Kind == "read" && ev.Flags&kernel.FCurveEval != 0 {
		o.reads = append(o.reads, ev)
		return
	}
	if ev.Kind == "task" {
		if rec, ok := ev.Sample.(*evalRecord); ok {
			o.judge(ev, rec)
		}
	}
}

func (o *c06Oracle) violate(ev *kernel.Event, clause, kind, format string, a ...any) {
	key := clause + kind
	if o.seen[key] {
		return
	}
	o.seen[key] = true
	o.res.Violate("C06", clause, clause+" curve="+kind, ev.Seq, ev.T, format, a...)
}

// judge checks every curve reachable from the root, in evaluation order.
func (o *c06Oracle) judge(ev *kernel.Event, rec *evalRecord) {
	res := o.res
	res.Probe("evaluations")
	if rec.Err != "" {
		o.violate(ev, "no-error", "any", "Evaluate of %s failed without any injected fault: %s", rec.Root, rec.Err)
		return
	}
	var walk func(id string, depth int)
	visited := map[string]bool{}
	walk = func(id string, depth int) {
		c := o.spec[id]
		if c == nil {
			return
		}
		v := rec.Values[id]
		if v < 0 || v > 255 {
			o.violate(ev, "range", c.Kind, "curve %s (%s) evaluated to %d, outside 0..255", id, c.Kind, v)
		}
		switch c.Kind {
		case "linear":
			avg := rec.Avgs[c.Sensor]
			ref := refmodel.Linear(c.Min, c.Max, avg)
			sat := avg <= float64(c.Min)*1000 || avg >= float64(c.Max)*1000
			if sat {
				res.Probe("linear-saturated")
				if float64(v) != ref {
					o.violate(ev, "linear-saturation", "linear", "linear curve %s [%d,%d] at %v m°: value %d, want %v", id, c.Min, c.Max, avg, v, ref)
				}
			} else if math.Abs(float64(v)-ref) > 1 {
				o.violate(ev, "linear-interpolation", "linear", "linear curve %s [%d,%d] at %v m°: value %d, reference %.3f", id, c.Min, c.Max, avg, v, ref)
			} else {
				res.Probe("linear-interior")
			}
		case "steps":
			avg := rec.Avgs[c.Sensor]
			ref := refmodel.Steps(c.Steps, avg)
			_, atPoint := c.Steps[int(avg/1000)]
			atPoint = atPoint && avg/1000 == math.Trunc(avg/1000)
			if atPoint {
				res.Probe("steps-at-point")
			}
			tol := 1.0
			if atPoint {
				tol = 0
			}
			if math.Abs(float64(v)-ref) > tol {
				o.violate(ev, "steps-interpolation", "steps", "step curve %s %v at %v m°: value %d, reference %.3f", id, c.Steps, avg, v, ref)
			}
			res.Probe("steps-judged")
		case "pid":
			// the evaluation's sensor read, in order
			var rd *kernel.Event
			for len(o.reads) > 0 {
				cand := o.reads[0]
				o.reads = o.reads[1:]
				if tg := o.st.W.TargetOfPath(cand.Site); tg != nil && tg.ID == c.Sensor {
					rd = cand
					break
				}
			}
			if rd == nil {
				res.Probe("pid-unjudged(no read event)")
				return
			}
			st := o.pid[id]
			e := c.PID.SetPoint - float64(rd.Val)/1000
			if !st.init {
				st.init = true
				res.Probe("pid-first-evaluation(range only)")
			} else {
				dt := (rd.T - st.lastT).Seconds()
				st.integral += e * dt
				out := c.PID.P*e + c.PID.I*st.integral + c.PID.D*(e-st.prevErr)/dt
				ref := math.Max(0, math.Min(1, out)) * 255
				res.Probe("pid-judged")
				if out > 0.002 && out < 0.998 {
					res.Probe("pid-unsaturated")
				}
				if math.Abs(float64(v)-ref) > 1.0001 {
					o.violate(ev, "pid-term", "pid", "PID curve %s (setPoint %v, p %v i %v d %v): value %d, reference %.3f (error %v, integral %v, dt %v)", id, c.PID.SetPoint, c.PID.P, c.PID.I, c.PID.D, v, ref, e, st.integral, dt)
				}
			}
			st.prevErr, st.lastT = e, rd.T
		case "function":
			var vals []int
			for _, m := range c.Members {
				if !visited[m] || !isPidSpec(o.spec[m]) {
					walk(m, depth+1)
					visited[m] = true
				}
				vals = append(vals, rec.Values[m])
			}
			ref, ok := refmodel.Aggregate(c.Func, vals)
			res.Probe("function-judged")
			if depth >= 2 {
				res.Probe("function-depth>=3")
			}
			if ok && v != ref {
				o.violate(ev, "aggregate", c.Func, "function curve %s = %s%v: value %d, want %d", id, c.Func, vals, v, ref)
			}
		}
	}
	walk(rec.Root, 0)
}

func isPidSpec(c *world.CurveSpec) bool { return c != nil && c.Kind == "pid" }

func (o *c06Oracle) Finish(st *stage.Stage, res *check.Result) {
	res.Nontrivial = res.Probes["evaluations"] > 5
	if res.Probes["evaluations"] == 0 && st.BootErr == nil {
		res.Harness = "c06: no evaluation ran"
	}
	for _, c := range st.Sc.Curves {
		res.State(c.Kind + "|" + c.Func)
	}
}

func runC06(t *testing.T, sc *world.Scenario) *check.Result {
	return runL1(t, sc, func(st *stage.Stage, res *check.Result) []Oracle {
		o := &c06Oracle{st: st, res: res, spec: map[string]*world.CurveSpec{}, pid: map[string]*pidRef{}, seen: map[string]bool{}}
		for i := range sc.Curves {
			o.spec[sc.Curves[i].ID] = &sc.Curves[i]
			o.pid[sc.Curves[i].ID] = &pidRef{}
		}
		st.HarnessDriven = true
		st.ValidateFirst = true
		st.OnBooted = func(st *stage.Stage) {
			st.K.Go("evaluator", func() {
				r := kernel.NewRand(sc.Seed, "c06.task")
				n := int(sc.Params["evals"])
				// roots: curves nobody references (plus everything, occasionally)
				ref := map[string]bool{}
				for _, c := range sc.Curves {
					for _, m := range c.Members {
						ref[m] = true
					}
				}
				var roots []string
				for _, c := range sc.Curves {
					if !ref[c.ID] {
						roots = append(roots, c.ID)
					}
				}
				for i := 0; i < n; i++ {
					avgs := map[string]float64{}
					for _, s := range sc.Sensors {
						x := kernel.Pick(r, sensorExtremes...)
						if r.Bool(0.5) {
							x = float64(r.Range(-10000, 130000)) + kernel.Pick(r, 0.0, 0.5, 0.25)
						}
						st.Sensors[s.ID].SetMovingAvg(x)
						avgs[s.ID] = x
						// what a PID curve reads directly
						raw := r.Range(0, 100000)
						st.W.Sensors[s.ID].Spec.Prog = constTemp(raw)
					}
					// (the last three: a tick rate of minutes, a cycle behind a hanging driver, a resume from suspend)
					time.Sleep(time.Duration(kernel.Pick(r, 1, 10, 200, 1000, 5000, 1, 10, 200, 1000, 5000, 61000, 600000, 7200000)) * time.Millisecond)
					root := roots[r.Intn(len(roots))]
					curve := st.Curves[root]
					v, err := curve.Evaluate()
					rec := &evalRecord{Root: root, Value: v, Avgs: avgs, Values: map[string]int{}}
					if err != nil {
						rec.Err = err.Error()
					}
					for id, c := range st.Curves {
						rec.Values[id] = c.CurrentValue()
					}
					if v != rec.Values[root] {
						rec.Err = fmt.Sprintf("Evaluate returned %d but CurrentValue is %d", v, rec.Values[root])
					}
					st.K.StepWith("evaluated", rec)
				}
				st.K.Stop()
			})
		}
		return []Oracle{o}
	})
}

// ---------------------------------------------------------------------------
// c06conc: one curve graph shared by several fans. Sensor values are constant, so every evaluation of a
// curve has one right answer; a sequential warm-up pass (judged by the reference semantics like any c06
// evaluation) records it, then 2-4 evaluator tasks (the control loops of fans sharing the curve) evaluate
// the roots at the same time, interleaved by the kernel at the curve.member yield points between member
// evaluations: every result must equal the sequential one.

func genC06Conc(seed uint64, tier string) *world.Scenario {
	return genSharedGraph("c06conc", seed, false)
}

func genSharedGraph(fam string, seed uint64, monotone bool) *world.Scenario {
	var sc *world.Scenario
	for k := uint64(0); ; k++ {
		sc = genCurves(fam, seed+k*1000003, monotone)
		// constant leaves only, and at least one function curve over >= 2 members
		ok := false
		var keep []world.CurveSpec
		drop := map[string]bool{}
		for _, c := range sc.Curves {
			if c.Kind == "pid" {
				drop[c.ID] = true
			}
		}
		for _, c := range sc.Curves {
			if drop[c.ID] {
				continue
			}
			if c.Kind == "function" {
				var ms []string
				for _, m := range c.Members {
					if !drop[m] {
						ms = append(ms, m)
					}
				}
				if len(ms) == 0 {
					drop[c.ID] = true
					continue
				}
				c.Members = ms
				if len(ms) >= 2 {
					ok = true
				}
			}
			keep = append(keep, c)
		}
		sc.Curves = keep
		if ok {
			break
		}
	}
	sc.Seed = seed
	r := kernel.NewRand(seed, fam)
	sc.Params["tasks"] = float64(r.Range(2, 4))
	sc.Params["evals"] = float64(r.Range(8, 30))
	return sc
}

type concRecord struct {
	Task  int    `json:"task"`
	Root  string `json:"root"`
	Value int    `json:"value"`
	Want  int    `json:"want"`
	Err   string `json:"err,omitempty"`
}

type c06ConcOracle struct {
	inner *c06Oracle
	res   *check.Result
	spec  map[string]*world.CurveSpec
	seen  map[string]bool
}

func (o *c06ConcOracle) OnEvent(ev *kernel.Event) {
	if ev.Kind == "task" {
		if rec, ok := ev.Sample.(*concRecord); ok {
			o.res.Probe("concurrent-evaluations")
			kind := "?"
			if c := o.spec[rec.Root]; c != nil {
				kind = c.Func
			}
			switch {
			case rec.Err != "":
				if !o.seen["err"] {
					o.seen["err"] = true
					o.res.Violate("C06", "no-error", "no-error concurrent", ev.Seq, ev.T, "task %d: Evaluate of %s failed without any fault: %s", rec.Task, rec.Root, rec.Err)
				}
			case rec.Value != rec.Want:
				if !o.seen[kind] {
					o.seen[kind] = true
					o.res.Violate("C06", "aggregate", "aggregate concurrent curve="+kind, ev.Seq, ev.T,
						"task %d: function curve %s (%s) evaluated to %d while another fan was evaluating the same graph; with the same constant sensor values it evaluates to %d", rec.Task, rec.Root, kind, rec.Value, rec.Want)
				}
			}
			return
		}
	}
	o.inner.OnEvent(ev)
}

func (o *c06ConcOracle) Finish(st *stage.Stage, res *check.Result) {
	res.Nontrivial = res.Probes["concurrent-evaluations"] > 5
	if res.Probes["concurrent-evaluations"] == 0 && st.BootErr == nil {
		res.Harness = "c06conc: no concurrent evaluation ran"
	}
	for _, c := range st.Sc.Curves {
		res.State(c.Kind + "|" + c.Func)
	}
}

func runC06Conc(t *testing.T, sc *world.Scenario) *check.Result {
	return runL1(t, sc, func(st *stage.Stage, res *check.Result) []Oracle {
		in := &c06Oracle{st: st, res: res, spec: map[string]*world.CurveSpec{}, pid: map[string]*pidRef{}, seen: map[string]bool{}}
		o := &c06ConcOracle{inner: in, res: res, spec: in.spec, seen: map[string]bool{}}
		for i := range sc.Curves {
			in.spec[sc.Curves[i].ID] = &sc.Curves[i]
			in.pid[sc.Curves[i].ID] = &pidRef{}
		}
		st.HarnessDriven = true
		st.ValidateFirst = true
		st.W.MemberYields = true
		st.OnBooted = func(st *stage.Stage) {
			r := kernel.NewRand(sc.Seed, "c06conc.task")
			avgs := map[string]float64{}
			for _, s := range sc.Sensors {
				x := float64(r.Range(-10000, 130000)) + kernel.Pick(r, 0.0, 0.5, 0.25)
				st.Sensors[s.ID].SetMovingAvg(x)
				avgs[s.ID] = x
			}
			var roots []string
			for _, c := range sc.Curves {
				if c.Kind == "function" {
					roots = append(roots, c.ID)
				}
			}
			nTasks, nEvals := int(sc.Params["tasks"]), int(sc.Params["evals"])
			base := map[string]int{}
			start := make(chan struct{})
			var left atomic.Int32
			left.Store(int32(nTasks))
			st.K.Go("warmup", func() {
				for _, root := range roots {
					v, err := st.Curves[root].Evaluate()
					rec := &evalRecord{Root: root, Value: v, Avgs: avgs, Values: map[string]int{}}
					if err != nil {
						rec.Err = err.Error()
					}
					for id, c := range st.Curves {
						rec.Values[id] = c.CurrentValue()
					}
					base[root] = v
					st.K.StepWith("evaluated", rec)
				}
				close(start)
			})
			for k := 0; k < nTasks; k++ {
				k := k
				st.K.Go(fmt.Sprintf("fan%d", k), func() {
					<-start
					tr := kernel.NewRand(sc.Seed, fmt.Sprintf("c06conc.fan%d", k))
					for i := 0; i < nEvals; i++ {
						if tr.Bool(0.3) {
							time.Sleep(time.Duration(tr.Range(1, 50)) * time.Millisecond)
						}
						root := roots[tr.Intn(len(roots))]
						v, err := st.Curves[root].Evaluate()
						rec := &concRecord{Task: k, Root: root, Value: v, Want: base[root]}
						if err != nil {
							rec.Err = err.Error()
						}
						st.K.StepWith(fmt.Sprintf("fan%d.evaluated", k), rec)
					}
					if left.Add(-1) == 0 {
						st.K.Stop()
					}
				})
			}
		}
		return []Oracle{o}
	})
}

// ---------------------------------------------------------------------------
// c07conc: one curve graph (monotone curve types only) shared by several fans whose evaluations interleave at
// the member boundaries, while the temperatures only ever rise. Every read of a later evaluation happens
// after every read of an earlier evaluation of the same fan, so the later value is never lower.

type riseRecord struct {
	Task  int    `json:"task"`
	Root  string `json:"root"`
	Value int    `json:"value"`
	Prev  int    `json:"prev"`
	Err   string `json:"err,omitempty"`
}

type c07ConcOracle struct {
	res  *check.Result
	spec map[string]*world.CurveSpec
	seen map[string]bool
}

func (o *c07ConcOracle) OnEvent(ev *kernel.Event) {
	rec, ok := ev.Sample.(*riseRecord)
	if ev.Kind != "task" || !ok {
		return
	}
	o.res.Probe("concurrent-evaluations-under-rising-temperatures")
	kind := "?"
	if c := o.spec[rec.Root]; c != nil {
		kind = c.Func
	}
	if rec.Err == "" && rec.Prev >= 0 && rec.Value > rec.Prev {
		o.res.Probe("values-rising")
	}
	if rec.Err == "" && rec.Prev >= 0 && rec.Value < rec.Prev && !o.seen[kind] {
		o.seen[kind] = true
		o.res.Violate("C07", "curve-monotone-shared", "curve-monotone-shared func="+kind, ev.Seq, ev.T,
			"fan %d: function curve %s (%s), shared with other fans, evaluated to %d after it had evaluated to %d, although no temperature fell in between", rec.Task, rec.Root, kind, rec.Value, rec.Prev)
	}
}

func (o *c07ConcOracle) Finish(st *stage.Stage, res *check.Result) {
	res.Nontrivial = res.Probes["concurrent-evaluations-under-rising-temperatures"] > 5
	if !res.Nontrivial && st.BootErr == nil {
		res.Harness = "c07conc: no concurrent evaluation ran"
	}
}

func runC07Conc(t *testing.T, sc *world.Scenario) *check.Result {
	return runL1(t, sc, func(st *stage.Stage, res *check.Result) []Oracle {
		o := &c07ConcOracle{res: res, spec: map[string]*world.CurveSpec{}, seen: map[string]bool{}}
		for i := range sc.Curves {
			o.spec[sc.Curves[i].ID] = &sc.Curves[i]
		}
		st.HarnessDriven = true
		st.ValidateFirst = true
		st.W.MemberYields = true
		st.OnBooted = func(st *stage.Stage) {
			r := kernel.NewRand(sc.Seed, "c07conc.task")
			temp := map[string]float64{}
			for _, s := range sc.Sensors {
				temp[s.ID] = float64(r.Range(-10000, 60000))
				st.Sensors[s.ID].SetMovingAvg(temp[s.ID])
			}
			var roots []string
			for _, c := range sc.Curves {
				if c.Kind == "function" {
					roots = append(roots, c.ID)
				}
			}
			nTasks, nEvals := int(sc.Params["tasks"]), int(sc.Params["evals"])
			var left atomic.Int32
			left.Store(int32(nTasks))
			var done atomic.Bool
			st.K.Go("heater", func() {
				hr := kernel.NewRand(sc.Seed, "c07conc.heater")
				for !done.Load() {
					time.Sleep(time.Duration(hr.Range(1, 40)) * time.Millisecond)
					st.K.Step("heater")
					for _, s := range sc.Sensors {
						if hr.Bool(0.6) {
							temp[s.ID] += float64(kernel.Pick(hr, 1, 50, 500, 3000, 9000))
							st.Sensors[s.ID].SetMovingAvg(temp[s.ID])
						}
					}
				}
			})
			for k := 0; k < nTasks; k++ {
				k := k
				st.K.Go(fmt.Sprintf("fan%d", k), func() {
					tr := kernel.NewRand(sc.Seed, fmt.Sprintf("c07conc.fan%d", k))
					last := map[string]int{}
					for i := 0; i < 2*nEvals; i++ {
						if tr.Bool(0.3) {
							time.Sleep(time.Duration(tr.Range(1, 50)) * time.Millisecond)
						}
						root := roots[tr.Intn(len(roots))]
						v, err := st.Curves[root].Evaluate()
						rec := &riseRecord{Task: k, Root: root, Value: v, Prev: -1}
						if p, ok := last[root]; ok {
							rec.Prev = p
						}
						if err != nil {
							rec.Err = err.Error()
						} else {
							last[root] = v
						}
						st.K.StepWith(fmt.Sprintf("fan%d.evaluated", k), rec)
					}
					if left.Add(-1) == 0 {
						done.Store(true)
						st.K.Stop()
					}
				})
			}
		}
		return []Oracle{o}
	})
}

// ---------------------------------------------------------------------------
// C07 L0: dense sweeps

type c07Oracle struct{ res *check.Result }

func (o *c07Oracle) OnEvent(ev *kernel.Event)                  {}
func (o *c07Oracle) Finish(st *stage.Stage, res *check.Result) {}

func runC07(t *testing.T, sc *world.Scenario) *check.Result {
	return runL1(t, sc, func(st *stage.Stage, res *check.Result) []Oracle {
		st.HarnessDriven = true
		st.OnBooted = func(st *stage.Stage) {
			st.K.Go("sweeper", func() {
				r := kernel.NewRand(sc.Seed, "c07.task")
				for _, c := range sc.Curves {
					curve := st.Curves[c.ID]
					if curve == nil || reaches(sc, c.ID, "pid") {
						continue
					}
					// sweep: all sensors move together, or one moves while the others stay
					step := float64(kernel.Pick(r, 1, 1, 3, 10, 37, 100))
					lo, hi := -40000.0, 130000.0
					if step < 10 {
						// a 1 m° sweep over a window around a seeded point
						mid := float64(r.Range(-20000, 110000))
						lo, hi = mid-6000, mid+6000
					}
					only := ""
					if r.Bool(0.4) {
						only = sc.Sensors[r.Intn(len(sc.Sensors))].ID
					}
					for _, s := range sc.Sensors {
						st.Sensors[s.ID].SetMovingAvg(float64(r.Range(-20000, 110000)))
					}
					prev, prevT := -1, 0.0
					for x := lo; x <= hi; x += step {
						for _, s := range sc.Sensors {
							if only == "" || only == s.ID {
								st.Sensors[s.ID].SetMovingAvg(x)
							}
						}
						v, err := curve.Evaluate()
						res.Probe("sweep-evaluations")
						if err != nil {
							res.Violate("C07", "no-error", "no-error", 0, nil, "curve %s: %v", c.ID, err)
							break
						}
						if v < prev {
							res.Violate("C07", "curve-monotone", "curve-monotone kind="+c.Kind+" func="+c.Func, 0, nil,
								"curve %s (%s %s): value drops from %d at %.0f m° to %d at %.0f m° (step %v)", c.ID, c.Kind, c.Func, prev, prevT, v, x, step)
							break
						}
						prev, prevT = v, x
					}
					res.Probe("curves-swept")
					if c.Kind == "function" {
						res.Probe("function-curves-swept")
					}
					st.K.Step("swept")
				}
				st.K.Stop()
			})
		}
		return []Oracle{&c07Oracle{res: res}}
	})
}

func reaches(sc *world.Scenario, id, kind string) bool {
	for _, c := range sc.Curves {
		if c.ID == id {
			if c.Kind == kind {
				return true
			}
			for _, m := range c.Members {
				if reaches(sc, m, kind) {
					return true
				}
			}
		}
	}
	return false
}

// ---------------------------------------------------------------------------
// C07 L1: temperature ramps through the closed loop (direct algorithm)

func genC07Loop(seed uint64, tier string) *world.Scenario {
	sc := genLoop("c07loop", seed, tier, loopOpts{kinds: []string{"hwmon", "hwmon", "file"}, directOnly: true, neverStopP: 0.4, maxFans: 1, horizonLo: 60, horizonHi: 120, dropoutP: 0.5})
	r := kernel.NewRand(seed, "c07loop.extra")
	sc.TempWin = 1
	sc.TempPoll = sc.Tick
	sc.Faults = nil
	for i := range sc.Sensors {
		every := sc.Tick.D() / time.Duration(kernel.Pick(r, 1, 1, 2))
		n := int(sc.Horizon.D() / every)
		span := 75000 // from 15 °C to 90 °C across the run
		delta := span/n + 1
		sc.Sensors[i].Prog = world.TempProg{Kind: "ramp", Base: 12000 + r.Range(0, 3000), Delta: delta, Every: world.Dur(every), Lo: 0, Hi: 95000}
	}
	for i := range sc.Fans {
		sc.Fans[i].Plant.Stalls = nil
		sc.Fans[i].Plant.NeverSpin = false
		sc.Fans[i].Plant.MinRpm = 300
	}
	return sc
}

type c07LoopOracle struct {
	ct   *CycleTracker
	res  *check.Result
	prev map[string]*Cycle
	done map[string]bool
}

func (o *c07LoopOracle) OnEvent(ev *kernel.Event) { o.ct.OnEvent(ev) }
func (o *c07LoopOracle) Finish(st *stage.Stage, res *check.Result) {
	res.Nontrivial = res.Probes["ramp-cycles"] > 20
}

func runC07Loop(t *testing.T, sc *world.Scenario) *check.Result {
	return runL1(t, sc, func(st *stage.Stage, res *check.Result) []Oracle {
		st.W.Sampler = cycleSampler(st)
		o := &c07LoopOracle{ct: NewCycleTracker(st), res: res, prev: map[string]*Cycle{}, done: map[string]bool{}}
		spec := map[string]*world.FanSpec{}
		for i := range sc.Fans {
			spec[sc.Fans[i].ID] = &sc.Fans[i]
		}
		o.ct.OnCycle = func(c *Cycle) {
			p := o.prev[c.Fan]
			o.prev[c.Fan] = c
			if p == nil || p.After == nil || c.After == nil || o.done[c.Fan] {
				return
			}
			res.Probe("ramp-cycles")
			f := spec[c.Fan]
			if c.After.CurveVal > p.After.CurveVal {
				res.Probe("curve-steps-up")
			}
			if c.After.CurveVal < p.After.CurveVal {
				o.done[c.Fan] = true
				res.Violate("C07", "curve-monotone-in-loop", "curve-monotone-in-loop", c.EndPSeq, c.EndT, "fan %s: curve value fell %d → %d while the temperature only rises", c.Fan, p.After.CurveVal, c.After.CurveVal)
			}
			if c.After.Pwm < p.After.Pwm && c.After.Pwm >= 0 && p.After.Pwm >= 0 {
				o.done[c.Fan] = true
				res.Violate("C07", "pwm-monotone", fmt.Sprintf("pwm-monotone fan=%s map=%s limits=%s", f.Kind, mapKind(f), limitKind(f)), c.EndPSeq, c.EndT,
					"fan %s: written PWM fell %d → %d while the curve value went %d → %d (direct algorithm, rising temperature)", c.Fan, p.After.Pwm, c.After.Pwm, p.After.CurveVal, c.After.CurveVal)
			}
		}
		return []Oracle{o}
	})
}

// ---------------------------------------------------------------------------
// C07 twin worlds: the same scenario (same seed, same initial fan state, same
// schedule stream) is executed twice with constant temperatures T1 <= T2; at
// every cycle index the curve value and the written PWM of the hotter world
// must not be lower.

func genC07Twin(seed uint64, tier string) *world.Scenario {
	sc := genLoop("c07twin", seed, tier, loopOpts{kinds: []string{"hwmon", "hwmon", "file"}, directOnly: true, neverStopP: 0.3, maxFans: 1, horizonLo: 8, horizonHi: 12, dropoutP: 0.5})
	r := kernel.NewRand(seed, "c07twin.extra")
	sc.TempWin = 1
	sc.TempPoll = sc.Tick
	sc.Faults = nil
	f := &sc.Fans[0]
	f.Plant.Stalls, f.Plant.NeverSpin, f.Plant.MinRpm = nil, false, 300
	c1 := r.Range(0, 250)
	c2 := c1 + kernel.Pick(r, 1, 1, 2, 5, 20, r.Range(1, 255-c1))
	if c2 > 255 {
		c2 = 255
	}
	sc.Params["t1"], sc.Params["t2"] = float64(tempForCurve(c1)), float64(tempForCurve(c2))
	// the fan may happen to sit at a raw value that is numerically one of the map's inputs
	m := mapInForce(f)
	if r.Bool(0.6) {
		// ... in particular at the input nearest to what the hotter world will request
		lo, hi := refFanLimits(f, seededCurve(sc, f.ID))
		req := lo + int(float64(c2)/255*float64(hi-lo))
		if k := refmodel.Nearest(refmodel.SupportedInputs(m), req); len(k) > 0 {
			f.Driver.InitPwm = world.Quantise(&f.Driver, k[0])
		}
	} else if r.Bool(0.5) {
		keys := keysOfMap(m)
		f.Driver.InitPwm = world.Quantise(&f.Driver, keys[r.Intn(len(keys))])
	}
	if hr := kernel.NewRand(seed, "c07twin.history"); hr.Bool(0.45) {
		// a common history before the two worlds part: some cycles at another (mostly cooler) temperature, and
		// from some read on the PWM attribute answers EBUSY / EAGAIN / EIO (a locked chip bank, a hanging
		// driver) for a while or for good - in both worlds alike
		sc.Params["preC"] = float64(kernel.Pick(hr, 0, hr.Range(0, c1), hr.Range(0, 255)))
		sc.Params["preTicks"] = float64(hr.Range(1, 12))
		if hr.Bool(0.8) {
			sc.Faults = append(sc.Faults, world.FaultSpec{Op: "read", Target: "fan:" + f.ID + ":pwm", Nth: kernel.Pick(hr, 1, 2, 3, 1, 2, 3, 4, 5, 6, hr.Range(1, 30)), Count: kernel.Pick(hr, 6, 40, 1<<30, 1<<30, 1<<30),
				Kind: kernel.Pick(hr, "ebusy", "ebusy", "ebusy", "eagain", "eagain", "eio"), OnlyFlags: "upd"})
		}
		if f.Kind == "hwmon" && f.PwmMap != nil && hr.Bool(0.5) {
			// the sharpest form of it: the fan sits at the value the hotter world will ask for, one cooler cycle
			// changes that, and from then on the attribute answers EBUSY to every read - whoever remembers
			// "what the fan showed last" remembers the value from before that cycle
			lo, hi := refFanLimits(f, seededCurve(sc, f.ID))
			req := lo + int(float64(c2)/255*float64(hi-lo))
			if k := refmodel.Nearest(refmodel.SupportedInputs(m), req); len(k) > 0 {
				f.Driver.InitPwm = world.Quantise(&f.Driver, k[0])
			}
			sc.Params["preC"] = float64(hr.Range(0, max(0, c1-10)))
			sc.Params["preTicks"] = float64(hr.Range(4, 8))
			// (the first control cycle reads the value twice, then writes)
			sc.Faults = []world.FaultSpec{{Op: "read", Target: "fan:" + f.ID + ":pwm", Nth: kernel.Pick(hr, 2, 2, 2, 4), Count: 1 << 30,
				Kind: kernel.Pick(hr, "ebusy", "eagain"), OnlyFlags: "upd"}}
			sc.Variant += "|busy-after-first-write"
		}
		sc.Horizon += world.Dur(time.Duration(sc.Params["preTicks"]) * sc.Tick.D())
		sc.Variant += "|history"
	}
	return sc
}

func keysOfMap(m map[int]int) []int {
	var ks []int
	for k := range m {
		ks = append(ks, k)
	}
	sortInts(ks)
	return ks
}

func runC07Twin(t *testing.T, sc *world.Scenario) *check.Result {
	agg := check.NewResult(sc.Family, sc.Seed)
	agg.ScHash = scHash(sc)
	run := func(temp int) []*Cycle {
		s2 := sc.Clone()
		s2.Sensors[0].Prog = constTemp(temp)
		if pt, ok := sc.Params["preTicks"]; ok {
			at := 3500*time.Millisecond + time.Duration(pt)*sc.Tick.D()
			s2.Sensors[0].Prog = world.TempProg{Kind: "steps", Base: tempForCurve(int(sc.Params["preC"])), Steps: []world.TempStep{{T: world.Dur(at), V: temp}}}
		}
		var cycles []*Cycle
		res := runL1(t, s2, func(st *stage.Stage, res *check.Result) []Oracle {
			st.W.Sampler = cycleSampler(st)
			o := &c07LoopOracle{ct: NewCycleTracker(st), res: res, prev: map[string]*Cycle{}, done: map[string]bool{}}
			o.ct.OnCycle = func(c *Cycle) { cycles = append(cycles, c) }
			return []Oracle{o}
		})
		agg.Events += res.Events
		agg.VirtualSec += res.VirtualSec
		agg.MultiCh += res.MultiCh
		agg.Hash = mixHash(agg.Hash, res.Hash)
		agg.Interleave = mixHash(agg.Interleave, res.Interleave)
		if res.Harness != "" {
			agg.Harness = res.Harness
		}
		return cycles
	}
	a, b := run(int(sc.Params["t1"])), run(int(sc.Params["t2"]))
	f := &sc.Fans[0]
	agg.Sample = fmt.Sprintf("c07twin seed=%d fan=%s map=%s limits=%s initPwm=%d T1=%v T2=%v", sc.Seed, f.Kind, mapKind(f), limitKind(f), f.Driver.InitPwm, sc.Params["t1"], sc.Params["t2"])
	n := min(len(a), len(b))
	for i := 0; i < n; i++ {
		if a[i].After == nil || b[i].After == nil {
			continue
		}
		agg.Probe("twin-cycles")
		if a[i].After.CurveVal > b[i].After.CurveVal {
			agg.Violate("C07", "curve-monotone-twin", "curve-monotone-twin", 0, nil, "cycle %d: curve value %d at the cooler temperature, %d at the hotter one", i, a[i].After.CurveVal, b[i].After.CurveVal)
			break
		}
		if a[i].After.CurveVal < b[i].After.CurveVal {
			agg.Probe("twin-curve-values-differ")
		}
		if a[i].After.Pwm > b[i].After.Pwm && a[i].After.Pwm >= 0 && b[i].After.Pwm >= 0 && a[i].After.Raises == 0 && b[i].After.Raises == 0 {
			agg.Violate("C07", "pwm-monotone-twin", fmt.Sprintf("pwm-monotone-twin fan=%s map=%s", f.Kind, mapKind(f)), 0, nil,
				"cycle %d, same initial state (raw PWM %d): the cooler world (curve %d) has PWM %d, the hotter world (curve %d) only %d", i, f.Driver.InitPwm, a[i].After.CurveVal, a[i].After.Pwm, b[i].After.CurveVal, b[i].After.Pwm)
			break
		}
	}
	agg.Reason = "twin"
	agg.Nontrivial = agg.Probes["twin-cycles"] > 5
	agg.State(fmt.Sprintf("%s|%s", mapKind(f), limitKind(f)))
	return agg
}
