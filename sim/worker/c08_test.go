package worker

import (
	"fmt"
	"math"
	"strconv"
	"strings"
	"testing"
	"time"

	"github.com/markusressel/fan2go/zverif/check"
	"github.com/markusressel/fan2go/zverif/kernel"
	"github.com/markusressel/fan2go/zverif/stage"
	"github.com/markusressel/fan2go/zverif/world"
)

// C08 — sensor smoothing stays within observed readings, converges
// geometrically, and ignores failed / non-finite reads.

func init() {
	register(&Family{Name: "c08", Gen: func(seed uint64, tier string) *world.Scenario { return genC08("c08", seed, false) }, Run: runC08})
	register(&Family{Name: "c08cmd", Gen: func(seed uint64, tier string) *world.Scenario { return genC08("c08cmd", seed, true) }, Run: runC08})
}

func genC08(fam string, seed uint64, cmd bool) *world.Scenario {
	sc, r := baseScenario(fam, seed)
	chip := addChip(sc, "simchip")
	sc.NoControllers = true
	sc.TempWin = kernel.Pick(r, 1, 2, 3, 5, 10, 10, 20, 50)
	sc.TempPoll = ms(kernel.Pick(r, 50, 100, 200, 500))
	npoll := r.Range(60, 400)
	if cmd {
		npoll = r.Range(40, 120)
	}
	sc.Horizon = world.Dur(sc.TempPoll.D() * time.Duration(npoll))
	faulty := r.Bool(0.7)
	if faulty {
		sc.Variant = "faults"
	} else {
		sc.Variant = "fault-free"
	}
	ns := r.Range(1, 3)
	if cmd {
		ns = 1
	}
	for i := 0; i < ns; i++ {
		kind := kernel.Pick(r, "hwmon", "file")
		if cmd {
			kind = "cmd"
		}
		// reading programme: plateaus (for convergence) and jumps, incl. negative and large values
		base := r.Range(-20000, 90000)
		prog := world.TempProg{Kind: "steps", Base: base}
		t := 0.0
		horizon := sc.Horizon.D().Seconds()
		for t < horizon {
			t += sc.TempPoll.D().Seconds() * float64(kernel.Pick(r, 1, 2, 5, 30, 80))
			v := r.Range(-30000, 110000)
			if r.Bool(0.1) {
				v = kernel.Pick(r, 0, -1, 1, 2147483647, -2147483648, 1000000000)
			}
			prog.Steps = append(prog.Steps, world.TempStep{T: sec(t), V: v})
		}
		if cmd && kernel.NewRand(seed, "c08.reader").Bool(0.6) {
			// a second caller of the same sensor (a PID curve, a metrics scrape) whose command executions
			// overlap the monitor's polls; readings stay well above zero so that a value pulled toward
			// zero leaves the hull
			sc.Params["reader"] = 1
			// the command takes its time now and then (up to 1.2 virtual s): executions overlap
			sc.SlowP, sc.SlowMx = 0.25, sec(1.2)
			prog.Base = 20000 + abs(prog.Base)
			for j := range prog.Steps {
				prog.Steps[j].V = 20000 + abs(prog.Steps[j].V%200000)
			}
		}
		s := world.SensorSpec{ID: fmt.Sprintf("s%d", i), Kind: kind, Prog: prog, Chip: chip, TempN: i + 1}
		if kind == "cmd" && r.Bool(0.5) {
			s.CmdFormat = "float"
		}
		sc.Sensors = append(sc.Sensors, s)
		if faulty {
			nf := r.Range(1, 6)
			for j := 0; j < nf; j++ {
				ft := world.FaultSpec{Target: "sensor:" + s.ID, Nth: r.Range(0, npoll-1), Count: kernel.Pick(r, 1, 1, 2, 5, 20)}
				if kind == "cmd" {
					ft.Op = "exec"
					ft.Kind = kernel.Pick(r, "exit1", "exit1out", "garbage", "grouped", "nan", "inf", "-inf", "empty", "timeout", "killed", "huge")
				} else {
					ft.Op = "read"
					ft.Kind = kernel.Pick(r, "eio", "missing", "empty", "garbage", "huge", "eacces")
					ft.OnlyFlags = "mon"
				}
				sc.Faults = append(sc.Faults, ft)
			}
		}
	}
	return sc
}

type c08Sensor struct {
	spec     *world.SensorSpec
	lo, hi   float64
	haveInit bool
	prev     float64 // average after the previous poll
	// outcome of the poll in progress
	pollSeen   bool
	pollOK     bool
	pollVal    float64
	pollWhy    string
	constVal   float64
	constK     int
	constAvg0  float64
	reported   map[string]bool
	execFault  string
	otherFault string
	altOK      bool    // the poll in progress printed a number with thousands grouping: skipping it or
	altVal     float64 // taking it for this value are both acceptable
	polls      int
	failedPoll int
}

type c08Oracle struct {
	st  *stage.Stage
	res *check.Result
	s   map[string]*c08Sensor
}

type c08Sample struct {
	Avg float64 `json:"avg"`
}

func (o *c08Oracle) sigOf(s *c08Sensor, why string) string {
	return fmt.Sprintf("sensor=%s cause=%s", s.spec.Kind, why)
}

func (o *c08Oracle) OnEvent(ev *kernel.Event) {
	switch {
	case ev.Kind == "read" && ev.Flags&kernel.FSensorMon != 0:
		tg := o.st.W.TargetOfPath(ev.Site)
		if tg == nil || tg.Kind != "sensor" {
			return
		}
		s := o.s[tg.ID]
		s.pollSeen = true
		if ev.Err != "" {
			s.pollOK = false
			s.pollWhy = "read-error"
			if ev.Fault != "" {
				s.pollWhy = ev.Fault
			}
		} else {
			s.pollOK, s.pollVal = true, float64(ev.Val)
		}
	case ev.Kind == "exec" && ev.Flags&kernel.FSensorMon != 0 && ev.Err == "":
		// the permission check passed; remember which fault (if any) the world planted for this execution:
		// the poll's outcome is judged from the fault plan, not from what SafeCmdExecution reports
		if tg := o.st.W.TargetOfExe(ev.Site); tg != nil && tg.Kind == "sensor" {
			o.s[tg.ID].execFault = ev.Fault
		}
	case ev.Kind == "exec" && ev.Flags&kernel.FSensorMon != 0 && ev.Err != "":
		// the command was not started (permission check) or an injected timeout
		if tg := o.st.W.TargetOfExe(ev.Site); tg != nil && tg.Kind == "sensor" {
			s := o.s[tg.ID]
			s.pollSeen, s.pollOK, s.pollWhy = true, false, "exec-not-run"
			if ev.Fault != "" {
				s.pollWhy = ev.Fault
			}
		}
	case ev.Kind == "yield" && ev.Site == "exec.start" && ev.Flags&kernel.FSensorMon != 0:
		tg := o.st.W.TargetOfExe(ev.ID)
		if tg == nil || tg.Kind != "sensor" {
			return
		}
		s := o.s[tg.ID]
		s.pollSeen = true
		s.altOK = false
		if s.execFault == "exec.grouped" {
			if v, err := strconv.ParseFloat(strings.ReplaceAll(strings.TrimSpace(ev.Out), ",", ""), 64); err == nil && strings.Contains(ev.Out, ",") {
				s.altOK, s.altVal = true, v
			}
		}
		if s.execFault != "" {
			// every planted command fault (exit != 0 with or without output, killed, garbage, nan/inf,
			// empty, huge) makes the poll a failed one, whatever the call returned
			s.pollOK, s.pollWhy = false, s.execFault
			s.execFault = ""
			return
		}
		if ev.Err != "" {
			s.pollOK, s.pollWhy = false, "exec-failed"
			return
		}
		v, err := strconv.ParseFloat(strings.TrimSpace(ev.Out), 64)
		switch {
		case err != nil:
			s.pollOK, s.pollWhy = false, "output-not-a-number"
		case math.IsNaN(v) || math.IsInf(v, 0):
			s.pollOK, s.pollWhy = false, "output-non-finite"
		default:
			s.pollOK, s.pollVal = true, v
		}
	case ev.Kind == "exec" && ev.Flags&kernel.FSensorMon == 0 && ev.Err == "":
		if tg := o.st.W.TargetOfExe(ev.Site); tg != nil && tg.Kind == "sensor" {
			o.s[tg.ID].otherFault = ev.Fault
		}
	case ev.Kind == "yield" && ev.Site == "exec.start" && ev.Flags&kernel.FSensorMon == 0:
		// a reading taken by another caller of the same sensor belongs to "all readings taken so far"
		tg := o.st.W.TargetOfExe(ev.ID)
		if tg == nil || tg.Kind != "sensor" {
			return
		}
		s := o.s[tg.ID]
		if s.otherFault == "" && ev.Err == "" {
			if v, err := strconv.ParseFloat(strings.TrimSpace(ev.Out), 64); err == nil && !math.IsNaN(v) && !math.IsInf(v, 0) {
				s.lo, s.hi = math.Min(s.lo, v), math.Max(s.hi, v)
				o.res.Probe("readings-by-another-caller")
			}
		}
		s.otherFault = ""
	case ev.Kind == "yield" && (ev.Site == "mon.tick" || ev.Site == "mon.poll.end"):
		s := o.s[ev.ID]
		smp, ok := ev.Sample.(*c08Sample)
		if s == nil || !ok {
			return
		}
		if ev.Site == "mon.tick" {
			if !s.haveInit {
				s.haveInit = true
				s.lo, s.hi, s.prev = smp.Avg, smp.Avg, smp.Avg
				if math.IsNaN(smp.Avg) {
					s.lo, s.hi = math.Inf(1), math.Inf(-1)
				}
			}
			s.pollSeen = false
			return
		}
		o.judge(ev, s, smp.Avg)
	}
}

func (o *c08Oracle) judge(ev *kernel.Event, s *c08Sensor, avg float64) {
	res := o.res
	n := float64(o.st.Sc.TempWin)
	s.polls++
	report := func(clause, why, format string, a ...any) {
		key := clause + why
		if s.reported[key] {
			return
		}
		s.reported[key] = true
		res.Violate("C08", clause, clause+" "+o.sigOf(s, why), ev.Seq, ev.T, format, a...)
	}
	if !s.pollSeen {
		// the poll took no reading of its own (nothing the property says about it except the hull)
		res.Probe("polls-without-own-reading")
		tol := 1e-12 * math.Max(math.Abs(s.lo), math.Abs(s.hi))
		if !(avg >= s.lo-tol && avg <= s.hi+tol) && !(math.IsNaN(avg) && math.IsNaN(s.prev)) {
			report("hull", "no-reading-of-its-own", "sensor %s (%s): smoothed value %v outside [%v,%v] of initial value and readings so far after a poll that took no reading (poll #%d)", s.spec.ID, s.spec.Kind, avg, s.lo, s.hi, s.polls)
		}
		s.prev, s.constK = avg, 0
		return
	}
	if !s.pollOK && s.altOK && avg != s.prev {
		// the grouped number was taken for a reading: then for the number it is
		res.Probe("grouped-number-understood")
		want := s.prev + (s.altVal-s.prev)/n
		if !(math.Abs(avg-want) <= 1e-9*(1+math.Abs(want))) {
			report("unchanged-on-failed-poll", "grouped-number-misread", "sensor %s (%s): the command printed a number with thousands grouping (%v); the smoothed value went %v → %v, which is neither unchanged nor an update with that number (%v)", s.spec.ID, s.spec.Kind, s.altVal, s.prev, avg, want)
		}
		s.pollOK, s.pollVal = true, s.altVal
	}
	if !s.pollOK {
		s.failedPoll++
		res.Probe("failed-polls")
		res.Probe("failed:" + s.pollWhy)
		if !(avg == s.prev || (math.IsNaN(avg) && math.IsNaN(s.prev))) {
			report("unchanged-on-failed-poll", s.pollWhy, "sensor %s (%s): poll failed (%s) but the smoothed value changed %v → %v", s.spec.ID, s.spec.Kind, s.pollWhy, s.prev, avg)
		}
		s.constK = 0
	} else {
		v := s.pollVal
		res.Probe("good-polls")
		if v < s.lo {
			s.lo = v
		}
		if v > s.hi {
			s.hi = v
		}
		// convergence while readings stay constant
		if s.constK > 0 && v == s.constVal {
			s.constK++
		} else {
			s.constVal, s.constK, s.constAvg0 = v, 1, s.prev
		}
		if !math.IsNaN(s.constAvg0) && !math.IsInf(s.constAvg0, 0) {
			bound := math.Pow(1-1/n, float64(s.constK))*math.Abs(s.constAvg0-v)*(1+1e-9) + 1e-9*(1+math.Abs(v))
			if d := math.Abs(avg - v); !(d <= bound) {
				report("geometric-convergence", "constant-readings", "sensor %s (%s): %d constant readings of %v from average %v (window %d): distance %v exceeds the geometric bound %v", s.spec.ID, s.spec.Kind, s.constK, v, s.constAvg0, int(n), d, bound)
			}
			if s.constK >= 5 {
				res.Probe("convergence-judged(k>=5)")
			}
		}
	}
	tol := 1e-12 * math.Max(math.Abs(s.lo), math.Abs(s.hi))
	if !(avg >= s.lo-tol && avg <= s.hi+tol) {
		why := "after-good-poll"
		if !s.pollOK {
			why = s.pollWhy
		}
		report("hull", why, "sensor %s (%s): smoothed value %v outside [%v,%v] of initial value and readings so far (poll #%d, %s)", s.spec.ID, s.spec.Kind, avg, s.lo, s.hi, s.polls, why)
	}
	s.prev = avg
}

func (o *c08Oracle) Finish(st *stage.Stage, res *check.Result) {
	polls := 0
	for _, s := range o.s {
		polls += s.polls
		res.State(fmt.Sprintf("%s|win=%d|failed=%v", s.spec.Kind, st.Sc.TempWin, s.failedPoll > 0))
	}
	if polls == 0 && st.BootErr == nil {
		res.Harness = "c08: no poll observed"
	}
	res.Nontrivial = polls > 10
}

func runC08(t *testing.T, sc *world.Scenario) *check.Result {
	return runL1(t, sc, func(st *stage.Stage, res *check.Result) []Oracle {
		o := &c08Oracle{st: st, res: res, s: map[string]*c08Sensor{}}
		for i := range sc.Sensors {
			o.s[sc.Sensors[i].ID] = &c08Sensor{spec: &sc.Sensors[i], reported: map[string]bool{}}
		}
		st.W.Sampler = func(site, id string) any {
			if site != "mon.tick" && site != "mon.poll.end" {
				return nil
			}
			s := st.Sensors[id]
			if s == nil {
				return nil
			}
			return &c08Sample{Avg: s.GetMovingAvg()}
		}
		if sc.Params["reader"] > 0 {
			st.OnBooted = func(st *stage.Stage) {
				st.K.Go("reader", func() {
					rr := kernel.NewRand(sc.Seed, "c08.reader.task")
					for st.K.Now() < sc.Horizon.D() {
						time.Sleep(time.Duration(rr.Range(20, 400)) * time.Millisecond)
						for _, sn := range sc.Sensors {
							_, _ = st.Sensors[sn.ID].GetValue()
						}
					}
				})
			}
		}
		return []Oracle{o}
	})
}
