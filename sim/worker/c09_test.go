package worker

import (
	"fmt"
	"strings"
	"testing"
	"time"

	"github.com/markusressel/fan2go/zverif/check"
	"github.com/markusressel/fan2go/zverif/kernel"
	"github.com/markusressel/fan2go/zverif/world"
)

// C09 — a failing sensor or fan read/write never crashes the daemon.
// Fault enumeration: for every combination fan backend x sensor backend x
// curve type, every single fault (kind x component x position) of a fixed
// list is injected into a running closed loop of the real daemon (L2, own
// process); pairs of faults are sampled.

func init() {
	register(&Family{Name: "c09", Gen: func(seed uint64, tier string) *world.Scenario { return genC09(seed, false) }, Run: runC09})
	register(&Family{Name: "c09pairs", Gen: func(seed uint64, tier string) *world.Scenario { return genC09(seed, true) }, Run: runC09})
	register(&Family{Name: "c09init", Gen: genC09Init, Run: runC09})
	register(&Family{Name: "c09shared", Gen: genC09Shared, Run: runC09})
}

type c09Combo struct{ fan, sensor, curve string }

func c09Combos() []c09Combo {
	var out []c09Combo
	for _, f := range []string{"hwmon", "file", "cmd"} {
		for _, s := range []string{"hwmon", "file", "cmd"} {
			for _, c := range []string{"linear", "pid", "function", "fn-avg-pid", "fn-delta-pids"} {
				out = append(out, c09Combo{f, s, c})
			}
		}
	}
	return out
}

var readKinds = []string{"eio", "missing", "empty", "garbage", "huge"}
var execKinds = []string{"exit1", "exit1out", "garbage", "nan", "empty", "timeout", "notexec", "badformat", "vanished", "killed"}

// c09Faults lists the single faults of a combo (fan "fa", sensor "sa").
func c09Faults(c c09Combo) []world.FaultSpec {
	var out []world.FaultSpec
	add := func(op, target, flags string, nths []int, kinds []string) {
		for _, k := range kinds {
			for _, n := range nths {
				out = append(out, world.FaultSpec{Op: op, Target: target, Nth: n, Count: 1, Kind: k, OnlyFlags: flags})
			}
		}
	}
	_ = add
	// sensor
	sensorFlags := []string{"mon"}
	if c.curve != "linear" {
		sensorFlags = append(sensorFlags, "curve")
	}
	for _, fl := range sensorFlags {
		if c.sensor == "cmd" {
			add("exec", "sensor:sa", fl, []int{0, 1, 6}, execKinds)
		} else {
			add("read", "sensor:sa", fl, []int{0, 1, 6}, readKinds)
		}
	}
	if c.curve == "fn-delta-pids" {
		// every member of the function curve fails in the same cycle: two consecutive reads
		n0 := len(out)
		if c.sensor == "cmd" {
			add("exec", "sensor:sa", "curve", []int{0, 4}, []string{"exit1", "garbage", "timeout"})
		} else {
			add("read", "sensor:sa", "curve", []int{0, 4}, []string{"eio", "garbage", "missing"})
		}
		for i := n0; i < len(out); i++ {
			out[i].Count = 2
		}
	}
	if c.sensor != "cmd" {
		add("read", "sensor:sa", "", []int{0}, readKinds) // the very first read (start-up seeding)
	} else {
		add("exec", "sensor:sa", "", []int{0}, execKinds)
	}
	// fan
	if c.fan == "cmd" {
		add("exec", "fan:fa:getpwm", "", []int{0, 1}, execKinds)
		add("exec", "fan:fa:getpwm", "upd", []int{0, 2, 9}, execKinds)
		add("exec", "fan:fa:setpwm", "upd", []int{0, 1, 3}, execKinds)
		add("exec", "fan:fa:getrpm", "rpm", []int{0, 1, 4}, execKinds)
	} else {
		add("read", "fan:fa:pwm", "", []int{0, 1, 2}, readKinds)
		add("read", "fan:fa:pwm", "upd", []int{0, 1, 2, 9}, readKinds)
		add("read", "fan:fa:pwm", "rpm", []int{0, 2}, readKinds)
		add("read", "fan:fa:rpm", "rpm", []int{0, 1, 4}, readKinds)
		add("write", "fan:fa:pwm", "upd", []int{0, 1, 3}, []string{"error", "ignored"})
		if c.fan == "hwmon" {
			add("write", "fan:fa:enable", "upd", []int{0, 1, 5}, []string{"error", "einval", "ignored"})
			add("read", "fan:fa:enable", "", []int{0, 1}, readKinds)
			add("read", "fan:fa:enable", "upd", []int{0, 3}, readKinds)
		}
	}
	return out
}

// c09Index maps a running index to (combo, fault).
func c09Total() int {
	n := 0
	for _, c := range c09Combos() {
		n += len(c09Faults(c))
	}
	return n
}

func c09Pick(idx int) (c09Combo, world.FaultSpec) {
	for _, c := range c09Combos() {
		fl := c09Faults(c)
		if idx < len(fl) {
			return c, fl[idx]
		}
		idx -= len(fl)
	}
	panic("index")
}

func genC09(seed uint64, pairs bool) *world.Scenario {
	fam := "c09"
	if pairs {
		fam = "c09pairs"
	}
	sc, r := baseScenario(fam, seed)
	total := c09Total()
	// consecutive seeds jump through the whole enumeration (7919 is prime and does not divide total),
	// so a quick window samples every combination; total consecutive seeds still cover everything
	idx := int((seed % uint64(total)) * 7919 % uint64(total))
	combo, fault := c09Pick(idx)
	sc.Variant = fmt.Sprintf("%s/%s/%s", combo.fan, combo.sensor, combo.curve)
	sc.Params["index"], sc.Params["total"] = float64(idx), float64(total)
	chip := addChip(sc, "simchip")
	sc.TempPoll, sc.Tick, sc.RpmPoll = ms(200), ms(200), ms(500)
	sc.TempWin, sc.RpmWin = 2, 2
	sc.Horizon = sec(12)
	sc.LatMax = world.Dur(500 * time.Microsecond)
	// affected loop: sensor sa, curve ca, fan fa
	sc.Sensors = append(sc.Sensors, world.SensorSpec{ID: "sa", Kind: combo.sensor, Prog: world.TempProg{Kind: "ramp", Base: 30000, Delta: 900, Every: ms(300), Lo: 0, Hi: 90000}, Chip: chip, TempN: 1})
	switch combo.curve {
	case "linear":
		sc.Curves = append(sc.Curves, world.CurveSpec{ID: "ca", Kind: "linear", Sensor: "sa", Min: 20, Max: 80})
	case "pid":
		sc.Curves = append(sc.Curves, world.CurveSpec{ID: "ca", Kind: "pid", Sensor: "sa", PID: &world.PidSpec{SetPoint: 40, P: -0.05, I: -0.005, D: -0.005}})
	case "fn-avg-pid":
		sc.Curves = append(sc.Curves,
			world.CurveSpec{ID: "ca_pid", Kind: "pid", Sensor: "sa", PID: &world.PidSpec{SetPoint: 40, P: -0.05, I: -0.005, D: -0.005}},
			world.CurveSpec{ID: "ca", Kind: "function", Func: "average", Members: []string{"ca_pid"}})
	case "fn-delta-pids":
		sc.Curves = append(sc.Curves,
			world.CurveSpec{ID: "ca_pid1", Kind: "pid", Sensor: "sa", PID: &world.PidSpec{SetPoint: 40, P: -0.05, I: -0.005, D: -0.005}},
			world.CurveSpec{ID: "ca_pid2", Kind: "pid", Sensor: "sa", PID: &world.PidSpec{SetPoint: 55, P: -0.03, I: -0.001, D: 0}},
			world.CurveSpec{ID: "ca", Kind: "function", Func: "delta", Members: []string{"ca_pid1", "ca_pid2"}})
	case "function":
		sc.Curves = append(sc.Curves,
			world.CurveSpec{ID: "ca_lin", Kind: "linear", Sensor: "sa", Min: 20, Max: 80},
			world.CurveSpec{ID: "ca_pid", Kind: "pid", Sensor: "sa", PID: &world.PidSpec{SetPoint: 40, P: -0.05, I: -0.005, D: -0.005}},
			world.CurveSpec{ID: "ca_inner", Kind: "function", Func: "maximum", Members: []string{"ca_lin", "ca_pid"}},
			world.CurveSpec{ID: "ca", Kind: "function", Func: "average", Members: []string{"ca_inner", "ca_lin"}})
	}
	fa := world.FanSpec{ID: "fa", Kind: combo.fan, Curve: "ca", Chip: chip, Channel: 1, Algo: world.AlgoSpec{Kind: "direct"}}
	fa.Plant = world.PlantSpec{MaxRpm: 2000, StartThr: 20, StopThr: 15, TauMs: 300, InitRpm: 800, MinRpm: 200}
	fa.Driver = world.DriverSpec{InitMode: 2, InitPwm: 90, AutoPwm: 100}
	if combo.fan != "hwmon" {
		fa.Driver.NoEnable = true
	}
	im := identityMap()
	fa.PwmMap = &im
	if combo.fan == "hwmon" {
		preseedRpmCurve(sc, "fa", linearRpmCurve(20, 255, 2000))
	}
	sc.Fans = append(sc.Fans, fa)
	// bystander loop: must keep running (or be restored in an orderly shutdown)
	sc.Sensors = append(sc.Sensors, world.SensorSpec{ID: "sb", Kind: "file", Prog: world.TempProg{Kind: "ramp", Base: 70000, Delta: -700, Every: ms(400), Lo: 20000, Hi: 90000}})
	sc.Curves = append(sc.Curves, world.CurveSpec{ID: "cb", Kind: "linear", Sensor: "sb", Min: 20, Max: 80})
	fb := world.FanSpec{ID: "fb", Kind: "hwmon", Curve: "cb", Chip: chip, Channel: 2, Algo: world.AlgoSpec{Kind: "direct"}}
	fb.Plant = fa.Plant
	fb.Driver = world.DriverSpec{InitMode: 2, InitPwm: 70, AutoPwm: 100}
	im2 := identityMap()
	fb.PwmMap = &im2
	preseedRpmCurve(sc, "fb", linearRpmCurve(20, 255, 2000))
	sc.Fans = append(sc.Fans, fb)
	sc.Faults = append(sc.Faults, fault)
	if pairs {
		// a second fault: another entry of the same combo, possibly at the same site
		fl := c09Faults(combo)
		f2 := fl[r.Intn(len(fl))]
		if r.Bool(0.3) {
			f2 = fault
			f2.Nth = fault.Nth + r.Range(1, 3)
		}
		if r.Bool(0.35) {
			// a fault that stops regulation of the fan, paired with faults in the restoration that follows
			sc.Faults = sc.Faults[:0]
			switch {
			case combo.curve != "linear" && combo.sensor != "cmd":
				sc.Faults = append(sc.Faults, world.FaultSpec{Op: "read", Target: "sensor:sa", Nth: r.Range(0, 8), Count: 2, Kind: kernel.Pick(r, "eio", "garbage", "missing"), OnlyFlags: "curve"})
			case combo.curve != "linear":
				sc.Faults = append(sc.Faults, world.FaultSpec{Op: "exec", Target: "sensor:sa", Nth: r.Range(0, 8), Count: 2, Kind: kernel.Pick(r, "exit1", "garbage", "timeout"), OnlyFlags: "curve"})
			default:
				// the first PWM read of the first cycle fails: calculateTargetPwm returns the error
				sc.Faults = append(sc.Faults, fault)
			}
			if combo.fan == "cmd" {
				f2 = world.FaultSpec{Op: "exec", Target: "fan:fa:setpwm", Nth: r.Range(0, 1), Count: kernel.Pick(r, 1, 2), Kind: kernel.Pick(r, "exit1", "notexec", "timeout"), OnlyFlags: "restore"}
			} else {
				f2 = world.FaultSpec{Op: "write", Target: "fan:fa:pwm", Nth: r.Range(0, 1), Count: kernel.Pick(r, 1, 2), Kind: "error", OnlyFlags: "restore"}
				if combo.fan == "hwmon" {
					sc.Faults = append(sc.Faults, world.FaultSpec{Op: "write", Target: "fan:fa:enable", Nth: 0, Count: 2, Kind: kernel.Pick(r, "error", "einval", "ignored"), OnlyFlags: "restore"})
				}
			}
			sc.Variant += "/restore-faults"
		}
		sc.Faults = append(sc.Faults, f2)
	}
	if tr := kernel.NewRand(seed, "c09.slowclock"); tr.Bool(0.15) {
		// a leisurely configuration: control cycles every 90 s or every 10 minutes, polls every few seconds
		// (legal values; the same faults, hours of virtual time)
		sc.Tick = world.Dur(kernel.Pick(tr, 90*time.Second, 10*time.Minute))
		sc.TempPoll, sc.RpmPoll = world.Dur(kernel.Pick(tr, 5*time.Second, 30*time.Second)), world.Dur(kernel.Pick(tr, 10*time.Second, 60*time.Second))
		sc.Horizon = world.Dur(4*time.Second + 14*sc.Tick.D())
		sc.Variant += "/slow-clock"
	}
	return sc
}

// c09shared: the single faults of the enumeration, with the bystander fan using the SAME curve as the
// affected fan (two fans sharing one curve object and its sensor): whatever happens to the fan that meets
// the fault, the other one keeps being regulated or is restored as well.
func genC09Shared(seed uint64, tier string) *world.Scenario {
	sc := genC09(seed*31+7, false)
	sc.Family, sc.Seed = "c09shared", seed
	for i := range sc.Fans {
		if sc.Fans[i].ID == "fb" {
			sc.Fans[i].Curve = "ca"
		}
	}
	sc.Variant += "/shared-curve"
	return sc
}

func runC09(t *testing.T, sc *world.Scenario) *check.Result {
	res := check.NewResult(sc.Family, sc.Seed)
	res.ScHash = scHash(sc)
	var fd []string
	for _, f := range sc.Faults {
		fd = append(fd, fmt.Sprintf("%s %s %s#%d[%s]", f.Op, f.Target, f.Kind, f.Nth, f.OnlyFlags))
	}
	res.Sample = fmt.Sprintf("c09 #%d/%d combo=%s faults=%s", int(sc.Params["index"]), int(sc.Params["total"]), sc.Variant, strings.Join(fd, " + "))
	worldDir, outDir := l2Dirs()
	defer l2Cleanup(worldDir)
	spec := &childSpec{Scenario: sc, WorldDir: worldDir, OutDir: outDir}
	if kernel.NewRand(sc.Seed, "c09.display").Bool(0.3) {
		// a daemon started from a desktop session: DISPLAY is set (to a display nobody is logged in on), so
		// the desktop-notification path of "Fan Control Error" is taken instead of returning at once
		spec.Env = []string{"DISPLAY=:77"}
		res.Probe("runs-with-DISPLAY-set")
	}
	co := runChild(spec, 120*time.Second)
	accumulate(res, co)
	if co.Harness != "" {
		res.Harness = co.Harness + "\n" + tailStr(co.Stderr, 1500)
		return res
	}
	judgeSurvive(res, sc, co, "C09")
	return res
}

// judgeSurvive: no abrupt termination; every fan is either still regulated at
// the horizon or was restored (C03 predicate) after regulation of it stopped.
func judgeSurvive(res *check.Result, sc *world.Scenario, co *childOut, prop string) {
	fired := 0
	var firedKinds []string
	for _, ev := range co.Events {
		if ev.Fault != "" && !strings.HasPrefix(ev.Fault, "driver.") {
			fired++
			firedKinds = append(firedKinds, ev.Fault)
		}
	}
	res.ProbeN("faults-fired", fired)
	if fired == 0 {
		res.Probe("fault-not-reached")
	}
	var what []string
	for _, f := range sc.Faults {
		what = append(what, fmt.Sprintf("%s.%s@%s[%s]", f.Op, f.Kind, targetClass(sc, f.Target), f.OnlyFlags))
	}
	faultSig := strings.Join(what, "+")
	lastTick := map[string]time.Duration{}
	restored := map[string]bool{}
	var endT time.Duration
	rel := func(p string) string { return strings.TrimPrefix(p, co.WorldDir+"/") }
	for _, ev := range co.Events {
		endT = ev.T
		if ev.Kind == "yield" && ev.Site == "ctl.tick" {
			lastTick[ev.ID] = ev.T
		}
		if ev.Flags&kernel.FRestore != 0 {
			p := rel(ev.Site)
			if ev.Kind == "yield" {
				p = rel(ev.ID)
			}
			for _, f := range sc.Fans {
				if strings.Contains(p, "/"+f.ID+".") || strings.Contains(p, "/"+f.ID+"_") || (f.Kind == "hwmon" && strings.Contains(p, fmt.Sprintf("pwm%d", f.Channel))) {
					restored[f.ID] = true
				}
			}
		}
	}
	// restore attempts of PWM 255 per fan and how many of them the fault plan made fail
	w255, w255Faulted := map[string]int{}, map[string]int{}
	for _, ev := range co.Events {
		if ev.Flags&kernel.FRestore == 0 {
			continue
		}
		val, p, isW := ev.Val, "", false
		switch {
		case ev.Kind == "write" && !strings.HasSuffix(ev.Site, "_enable"):
			p, isW = rel(ev.Site), true
		case ev.Kind == "yield" && ev.Site == "exec.start" && strings.Contains(ev.ID, "_setpwm") && len(ev.Args) > 0:
			p, isW = rel(ev.ID), true
			fmt.Sscanf(ev.Args[0], "%d", &val)
		case ev.Kind == "exec" && strings.Contains(ev.Site, "_setpwm") && ev.Err != "" && len(ev.Args) > 0:
			p, isW = rel(ev.Site), true
			fmt.Sscanf(ev.Args[0], "%d", &val)
		}
		if !isW || val != 255 {
			continue
		}
		for _, f := range sc.Fans {
			if strings.Contains(p, "/"+f.ID+".") || strings.Contains(p, "/"+f.ID+"_") || (f.Kind == "hwmon" && strings.HasSuffix(p, fmt.Sprintf("/pwm%d", f.Channel))) {
				w255[f.ID]++
				if ev.Err != "" || ev.Fault != "" {
					w255Faulted[f.ID]++
				}
			}
		}
	}
	unsatisfiable := func(id string) bool { return w255[id] > 0 && w255Faulted[id] == w255[id] }
	res.State(sc.Variant + "|" + faultSig)
	switch {
	case co.Stuck != "":
		res.Violate(prop, "keeps-regulating", "keeps-regulating blocked-for-ever at "+co.Stuck, 0, nil,
			"the daemon stopped making progress: a goroutine waits for ever for a lock taken in %s (journal silent for more than 30 s, simulated time cannot advance); its fans are neither regulated nor restored; fault plan: %s", co.Stuck, faultSig)
		res.Nontrivial = true
		return
	case co.PanicMsg != "":
		res.Violate(prop, "no-abrupt-termination", "no-abrupt-termination panic at "+co.PanicSite, 0, nil,
			"the daemon died with a Go panic: %s (at %s); fault plan: %s", co.PanicMsg, co.PanicSite, faultSig)
		res.Nontrivial = true
		return
	case co.End == "" || co.End == "stopped":
		// the program ended by itself although nobody asked it to
		res.Probe("program-ended-by-itself")
		bad := []string{}
		for i := range sc.Fans {
			f := &sc.Fans[i]
			pwm, mode := readFinal(co.WorldDir, sc, f)
			if !handedBack(f, pwm, mode) && !unsatisfiable(f.ID) {
				bad = append(bad, fmt.Sprintf("%s(mode %d, pwm %d)", f.ID, mode, pwm))
			}
		}
		if len(bad) > 0 {
			res.Violate(prop, "no-abrupt-termination", "no-abrupt-termination exit-without-restore status="+fmt.Sprint(co.ExitCode)+" fault="+faultSig, 0, nil,
				"the daemon exited with status %d leaving %s; fault plan: %s; stderr: %s", co.ExitCode, strings.Join(bad, ", "), faultSig, tailStr(co.Stderr, 200))
		} else {
			res.Probe("orderly-shutdown-all-restored")
		}
		res.Nontrivial = fired > 0
		return
	}
	// still running at the horizon: every fan regulated or restored
	tick := sc.Tick.D()
	for i := range sc.Fans {
		f := &sc.Fans[i]
		alive := lastTick[f.ID] > 0 && endT-lastTick[f.ID] <= 3*tick+500*time.Millisecond
		if alive {
			res.Probe("fan-still-regulated")
			judgeTracking(res, sc, co, prop, f, endT, faultSig)
			continue
		}
		pwm, mode := readFinal(co.WorldDir, sc, f)
		ok := handedBack(f, pwm, mode)
		if restored[f.ID] && ok {
			res.Probe("fan-stopped-and-restored")
			continue
		}
		if restored[f.ID] && unsatisfiable(f.ID) {
			// every attempt to write full speed was itself made to fail by the fault plan
			res.Probe("unsatisfiable-fault-plan(unjudged)")
			continue
		}
		role := "affected"
		if f.ID == "fb" {
			role = "bystander"
		}
		res.Violate(prop, "regulated-or-restored", fmt.Sprintf("regulated-or-restored fan=%s role=%s fault=%s", f.Kind, role, faultSig), 0, nil,
			"fan %s is neither regulated any more (last cycle at %s of %s) nor restored (mode %d, pwm %d, restore seen=%v); fault plan: %s", f.ID, lastTick[f.ID], endT, mode, pwm, restored[f.ID], faultSig)
	}
	res.Nontrivial = fired > 0
}

func curveOf(sc *world.Scenario) string {
	parts := strings.Split(sc.Variant, "/")
	if len(parts) == 3 {
		return parts[2]
	}
	return "?"
}

func targetClass(sc *world.Scenario, target string) string {
	parts := strings.Split(target, ":")
	if len(parts) >= 2 {
		kind := ""
		if parts[0] == "fan" {
			for _, f := range sc.Fans {
				if f.ID == parts[1] {
					kind = f.Kind
				}
			}
			return kind + "-fan-" + parts[len(parts)-1]
		}
		for _, s := range sc.Sensors {
			if s.ID == parts[1] {
				kind = s.Kind
			}
		}
		return kind + "-sensor"
	}
	return target
}

// genC09Init: faults during the initial analysis (PWM sweep, RPM-curve
// measurement) of a hwmon fan that has no stored data, while a bystander fan
// is already being regulated.
func genC09Init(seed uint64, tier string) *world.Scenario {
	sc := genC09(0, false) // combo hwmon/hwmon/linear as the frame
	r := kernel.NewRand(seed, "c09init")
	sc.Family, sc.Seed = "c09init", seed
	sc.Faults = nil
	sc.FanResponseDelay = 1
	fa := &sc.Fans[0]
	fa.PwmMap = nil
	fa.Driver.Quant, fa.Driver.K = "mult", 32
	fa.Driver.InitPwm = 96
	var db []world.DBEntry
	for _, e := range sc.DB {
		if e.Key != "fa" {
			db = append(db, e)
		}
	}
	sc.DB = db
	sc.Horizon = sec(45)
	type site struct {
		op, target, flags string
		kinds             []string
		maxNth            int
	}
	sites := []site{
		{"write", "fan:fa:pwm", "sweep", []string{"error", "ignored"}, 200},
		{"read", "fan:fa:pwm", "sweep", readKinds, 200},
		{"write", "fan:fa:pwm", "initseq,!sweep", []string{"error", "ignored"}, 8},
		{"read", "fan:fa:pwm", "initseq,!sweep", readKinds, 8},
		{"read", "fan:fa:rpm", "initseq,!settle", readKinds, 8},
		{"read", "fan:fa:rpm", "settle", readKinds, 8},
		{"write", "fan:fa:enable", "manual", []string{"error", "einval", "ignored"}, 2},
	}
	s := sites[r.Intn(len(sites))]
	sc.Faults = append(sc.Faults, world.FaultSpec{Op: s.op, Target: s.target, Nth: r.Range(0, s.maxNth), Count: kernel.Pick(r, 1, 1, 3), Kind: s.kinds[r.Intn(len(s.kinds))], OnlyFlags: s.flags})
	sc.Variant = "hwmon/hwmon/linear/analysis"
	sc.Params["index"], sc.Params["total"] = float64(seed%1000), 1000
	return sc
}

// judgeTracking: "keeps regulating" means more than ticking. For a fan that is still regulated at the
// horizon through a linear curve and the direct algorithm, once the last fault lies >= 4 virtual s back
// the PWM value in force (the last regulating write that reached the fan) must correspond to the
// temperature of the last 2 s: a loop that silently stopped regulating, or regulates on a stale or
// poisoned value, is not regulating.
func judgeTracking(res *check.Result, sc *world.Scenario, co *childOut, prop string, f *world.FanSpec, endT time.Duration, faultSig string) {
	var cv *world.CurveSpec
	for i := range sc.Curves {
		if sc.Curves[i].ID == f.Curve {
			cv = &sc.Curves[i]
		}
	}
	if cv == nil || cv.Kind != "linear" || f.Algo.Kind != "direct" || f.Algo.MaxChange != nil || f.NeverStop || f.MinPwm != nil || f.MaxPwm != nil {
		return
	}
	var sn *world.SensorSpec
	for i := range sc.Sensors {
		if sc.Sensors[i].ID == cv.Sensor {
			sn = &sc.Sensors[i]
		}
	}
	if sn == nil {
		return
	}
	var lastFault time.Duration
	lied := false
	var firstTick time.Duration
	for _, ev := range co.Events {
		if ev.Kind == "yield" && ev.Site == "ctl.tick" && ev.ID == f.ID {
			firstTick = ev.T
			break
		}
	}
	for _, ev := range co.Events {
		if ev.Fault != "" && !strings.HasPrefix(ev.Fault, "driver.") {
			lastFault = ev.T
			if sc.Family == "c09init" && (firstTick == 0 || ev.T < firstTick) {
				// during the analysis only a failed READ outside the sweep leaves the healthy device fully
				// characterisable: fan2go knows the read failed and the device did what it was told. A write that
				// failed or was ignored (PWM or mode) means the device really did not take the value at that
				// moment, an invented number is a lie, and a value of the sweep that could not be read back is
				// simply missing from the map: what fan2go then measures is legitimately not the healthy device.
				// (The sweep flag also comes from the yield points ctl.startup / ctl.measure, not from names alone.)
				switch ev.Fault {
				case "read.eio", "read.missing", "read.empty", "read.garbage", "read.eacces":
					if ev.Flags&kernel.FPwmMapSweep != 0 {
						lied = true
					}
				default:
					lied = true
				}
			}
		}
	}
	if lied {
		res.Probe("tracking-not-judged(device refused or lied during the analysis)")
		return
	}
	// the PWM in force is what the fan shows at the horizon (a loop whose target equals the value
	// already there rightly writes nothing)
	inForce, _ := readFinal(co.WorldDir, sc, f)
	if endT-lastFault < 4*time.Second || endT < 6*time.Second {
		res.Probe("tracking-not-judged(fault too late)")
		return
	}
	// curve values the temperatures of the last 2 s map to (smoothing and polling make the loop lag)
	lo, hi := 255, 0
	for t := endT - 2*time.Second; t <= endT; t += 50 * time.Millisecond {
		c := int(float64(sn.Prog.At(t)/1000-cv.Min) / float64(cv.Max-cv.Min) * 255)
		c = max(0, min(255, c))
		lo, hi = min(lo, c), max(hi, c)
	}
	const tol = 8
	res.Probe("tracking-judged")
	role := "affected"
	if f.ID == "fb" {
		role = "bystander"
	}
	if inForce < 0 {
		res.Probe("tracking-not-judged(pwm unreadable at the horizon)")
		return
	}
	if inForce < lo-tol || inForce > hi+tol {
		res.Violate(prop, "keeps-regulating", fmt.Sprintf("keeps-regulating off-track fan=%s role=%s fault=%s", f.Kind, role, faultSig), 0, nil,
			"fan %s is still ticking %s after the last fault, but the PWM in force is %d while the temperatures of the last 2 s ask for %d..%d (+-%d); fault plan: %s",
			f.ID, endT-lastFault, inForce, lo, hi, tol, faultSig)
	}
}

// eventOfFan: the event's path / command belongs to this fan.
func eventOfFan(sc *world.Scenario, co *childOut, ev *kernel.Event, f *world.FanSpec) bool {
	p := strings.TrimPrefix(ev.Site, co.WorldDir+"/")
	if ev.Kind == "yield" {
		p = strings.TrimPrefix(ev.ID, co.WorldDir+"/")
	}
	return strings.Contains(p, "/"+f.ID+".") || strings.Contains(p, "/"+f.ID+"_") || (f.Kind == "hwmon" && (strings.HasSuffix(p, fmt.Sprintf("/pwm%d", f.Channel)) || strings.HasSuffix(p, fmt.Sprintf("/pwm%d_enable", f.Channel))))
}
