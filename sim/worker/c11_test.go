package worker

import (
	"fmt"
	"sort"
	"strings"
	"testing"
	"time"

	"github.com/markusressel/fan2go/internal/curves"
	"github.com/markusressel/fan2go/internal/sensors"
	"github.com/markusressel/fan2go/zverif/check"
	"github.com/markusressel/fan2go/zverif/kernel"
	"github.com/markusressel/fan2go/zverif/world"
	"gopkg.in/yaml.v3"
)

// C11 — a configuration that validates can be run. YAML text is generated
// (documented forms, plus seeded defects), taken through the real
// `fan2go config validate` in its own process, compared with an independent
// spec validator, and - if accepted - booted and run in the simulated world
// with every curve evaluated under several sensor states.

func init() {
	register(&Family{Name: "c11", Gen: genC11, Run: runC11})
	scheduleCurveSweep = c11CurveSweep
}

type docEntry struct {
	idLine   string // "id: x" or "" (missing)
	id       string
	backends []string // rendered backend blocks
	extra    []string // further lines (indented 4)
}

func genC11(seed uint64, tier string) *world.Scenario {
	sc, r := baseScenario("c11", seed)
	chip := addChip(sc, "simchip")
	sc.Horizon = sec(13)
	sc.Tick, sc.TempPoll, sc.RpmPoll = ms(200), ms(200), ms(1000)
	// device pool of the world
	sc.Sensors = []world.SensorSpec{
		{ID: "ws0", Kind: "file", Prog: constTemp(41000)},
		{ID: "ws1", Kind: "file", Prog: constTemp(66000)},
		{ID: "ws2", Kind: "hwmon", Prog: constTemp(52000), Chip: chip, TempN: 1},
		{ID: "ws3", Kind: "cmd", Prog: constTemp(37000)},
	}
	mkFan := func(id, kind string, ch int) world.FanSpec {
		f := world.FanSpec{ID: id, Kind: kind, Chip: chip, Channel: ch, Curve: "-"}
		f.Plant = world.PlantSpec{MaxRpm: 2000, StartThr: 20, StopThr: 15, TauMs: 200, InitRpm: 700, MinRpm: 200}
		f.Driver = world.DriverSpec{InitMode: 2, InitPwm: 80, AutoPwm: 100, NoEnable: kind != "hwmon"}
		return f
	}
	sc.Fans = []world.FanSpec{mkFan("wf0", "file", 0), mkFan("wf1", "file", 0), mkFan("wf2", "hwmon", 1), mkFan("wf3", "cmd", 0)}
	valid := r.Bool(0.35)
	if valid {
		sc.Variant = "documented-forms-only"
	} else {
		sc.Variant = "with-defects"
	}
	// a tenth of the documents are documented forms with ONE defect: an id used twice (sensor, curve or fan;
	// not necessarily by neighbouring entries): the only reason to reject them
	dupOnly := ""
	if dr := kernel.NewRand(seed, "c11.duponly"); dr.Bool(0.12) {
		dupOnly = kernel.Pick(dr, "sensor", "curve", "curve", "fan")
		sc.Variant = "one-defect:duplicate-" + dupOnly + "-id"
	}
	defect := func(p float64) bool { return !valid && dupOnly == "" && r.Bool(p) }
	idr := kernel.NewRand(seed, "c11.ids")

	// sensors
	var sens []docEntry
	ns := r.Range(1, 4)
	sensorBackend := func(i int) string {
		switch i % 4 {
		case 0:
			return "    file:\n      path: @W@/files/ws0.temp"
		case 1:
			return "    file:\n      path: @W@/files/ws1.temp"
		case 2:
			return "    hwmon:\n      platform: simchip-isa-0290\n      index: 1"
		default:
			return "    cmd:\n      exec: @W@/scripts/ws3_get.sh"
		}
	}
	for i := 0; i < ns; i++ {
		// ids are not in alphabetical order in the document (a leading letter drawn per entry)
		e := docEntry{id: fmt.Sprintf("%c_sen%d", 'a'+rune(idr.Intn(26)), i)}
		e.backends = []string{sensorBackend(r.Intn(4))}
		if defect(0.06) {
			e.backends = nil
		} else if defect(0.06) {
			e.backends = append(e.backends, sensorBackend(r.Intn(4)))
			if e.backends[0][:8] == e.backends[1][:8] {
				e.backends = e.backends[:1]
			}
		}
		if defect(0.05) && i > 0 {
			e.id = sens[r.Intn(len(sens))].id
		}
		e.idLine = "id: " + e.id
		if defect(0.04) {
			e.idLine, e.id = "", ""
		}
		sens = append(sens, e)
	}
	sensorRef := func() string {
		if defect(0.07) {
			return "nosuchsensor"
		}
		return sens[r.Intn(len(sens))].id
	}
	// curves
	nc := r.Range(1, 8)
	var curvs []docEntry
	ids := make([]string, nc)
	for i := range ids {
		ids[i] = fmt.Sprintf("%c_cur%d", 'a'+rune(idr.Intn(26)), i)
	}
	ftypes := []string{"minimum", "maximum", "average", "delta", "sum", "difference"}
	// a planted cycle of seeded length among function curves
	cycleLen := 0
	if defect(0.3) {
		cycleLen = r.Range(1, nc)
	}
	for i := 0; i < nc; i++ {
		e := docEntry{id: ids[i]}
		kind := r.Intn(4)
		if i < cycleLen {
			kind = 3
		} else if i == 0 || (valid && i < 2) {
			kind = r.Intn(3)
		}
		switch kind {
		case 0:
			lo := r.Range(10, 60)
			e.backends = []string{fmt.Sprintf("    linear:\n      sensor: %s\n      min: %d\n      max: %d", sensorRef(), lo, lo+kernel.Pick(r, r.Range(1, 40), r.Range(1, 40), r.Range(1, 40), r.Range(1, 40), 0, 0, -r.Range(1, 20)))} // also an on/off threshold (min == max) and an inverted pair
			if defect(0.1) {
				// both forms at once, the step list empty
				e.backends[0] += "\n      steps: " + kernel.Pick(r, "{}", "[]")
			}
		case 1:
			var b strings.Builder
			fmt.Fprintf(&b, "    linear:\n      sensor: %s\n      steps:", sensorRef())
			form := r.Intn(10)
			switch {
			case defect(0.12):
				b.WriteString(kernel.Pick(r, " []", " {}"))
			case form < 6: // documented: list of single-key maps
				n := r.Range(1, 6)
				t := r.Range(10, 40)
				for j := 0; j < n; j++ {
					fmt.Fprintf(&b, "\n        - %d: %d", t, r.Range(0, 255))
					t += r.Range(1, 20)
				}
			default: // map form
				n := r.Range(1, 5)
				t := r.Range(10, 40)
				for j := 0; j < n; j++ {
					fmt.Fprintf(&b, "\n        %d: %d", t, r.Range(0, 255))
					t += r.Range(1, 20)
				}
			}
			e.backends = []string{b.String()}
		case 2:
			p, ii, d := -0.05, -0.005, -0.005
			if defect(0.1) {
				p, ii, d = 0, 0, 0
			}
			e.backends = []string{fmt.Sprintf("    pid:\n      sensor: %s\n      setPoint: %d\n      p: %v\n      i: %v\n      d: %v", sensorRef(), r.Range(30, 70), p, ii, d)}
		case 3:
			var members []string
			switch {
			case i < cycleLen:
				members = []string{ids[(i+1)%cycleLen]}
				if r.Bool(0.4) && i+1 < nc {
					members = append(members, ids[r.Range(0, nc-1)])
				}
			default:
				// DAG: only earlier curves (index < i), nested function curves arise naturally
				n := r.Range(1, 4)
				for j := 0; j < n && i > 0; j++ {
					members = append(members, ids[r.Intn(i)])
				}
				if defect(0.08) {
					members = append(members, "nosuchcurve")
				}
				if defect(0.06) {
					members = append(members, ids[i]) // self reference
				}
			}
			ft := kernel.Pick(r, ftypes...)
			if defect(0.05) {
				ft = "median"
			}
			var b strings.Builder
			fmt.Fprintf(&b, "    function:\n      type: %s\n      curves:", ft)
			switch {
			case defect(0.12):
				b.WriteString(" []")
			case defect(0.04):
				b.Reset()
				fmt.Fprintf(&b, "    function:\n      type: %s", ft) // curves key omitted
			default:
				if len(members) == 0 {
					members = []string{ids[0]}
				}
				switch {
				case defect(0.15):
					// the members as one comma separated string (the loader splits it at the commas and keeps
					// whatever blanks the user typed around the ids)
					sep := kernel.Pick(r, ",", ",", ", ", " ,")
					fmt.Fprintf(&b, " %q", kernel.Pick(r, "", "", " ")+strings.Join(members, sep))
				case defect(0.05):
					for _, m := range members {
						fmt.Fprintf(&b, "\n        - %q", kernel.Pick(r, " ", "")+m+kernel.Pick(r, " ", ""))
					}
				default:
					for _, m := range members {
						fmt.Fprintf(&b, "\n        - %s", m)
					}
				}
			}
			e.backends = []string{b.String()}
		}
		if defect(0.05) {
			e.backends = append(e.backends, "    pid:\n      sensor: "+sens[0].id+"\n      setPoint: 50\n      p: -0.1\n      i: 0\n      d: 0")
			if strings.HasPrefix(e.backends[0], "    pid:") {
				e.backends = e.backends[:1]
			}
		} else if defect(0.04) {
			e.backends = nil
		}
		if defect(0.04) && i > 0 {
			e.id = ids[r.Intn(i)]
		}
		e.idLine = "id: " + e.id
		curvs = append(curvs, e)
	}
	// fans
	nf := r.Range(1, 3)
	var fans []docEntry
	fanBackend := func(k int) string {
		switch k % 4 {
		case 0:
			return "    file:\n      path: @W@/files/wf0.pwm\n      rpmPath: @W@/files/wf0.rpm"
		case 1:
			return "    file:\n      path: @W@/files/wf1.pwm"
		case 2:
			if r.Bool(0.5) {
				return "    hwmon:\n      platform: simchip-isa-0290\n      rpmChannel: 1\n      pwmChannel: 1"
			}
			return "    hwmon:\n      platform: simchip\n      index: 1"
		default:
			return "    cmd:\n      setPwm:\n        exec: @W@/scripts/wf3_setpwm.sh\n        args: [ \"%pwm%\" ]\n      getPwm:\n        exec: @W@/scripts/wf3_getpwm.sh\n      getRpm:\n        exec: @W@/scripts/wf3_getrpm.sh"
		}
	}
	used := map[int]bool{}
	for i := 0; i < nf; i++ {
		e := docEntry{id: fmt.Sprintf("%c_fan%d", 'a'+rune(idr.Intn(26)), i)}
		k := r.Intn(4)
		for used[k] {
			k = (k + 1) % 4
		}
		used[k] = true
		e.backends = []string{fanBackend(k)}
		if defect(0.05) {
			e.backends = nil
		} else if defect(0.05) {
			e.backends = append(e.backends, fanBackend(k+1))
		}
		cref := ids[r.Intn(nc)]
		if valid {
			cref = curvs[r.Intn(len(curvs))].id
		}
		if defect(0.07) {
			cref = "nosuchcurve"
		}
		e.extra = append(e.extra, "curve: "+cref)
		if r.Bool(0.5) {
			e.extra = append(e.extra, fmt.Sprintf("neverStop: %v", r.Bool(0.5)))
		}
		switch r.Intn(7) {
		case 0:
			e.extra = append(e.extra, "controlAlgorithm: direct")
		case 1:
			e.extra = append(e.extra, "controlAlgorithm: pid")
		case 2:
			e.extra = append(e.extra, fmt.Sprintf("controlAlgorithm:\n      direct:\n        maxPwmChangePerCycle: %d", r.Range(1, 50)))
		case 3:
			e.extra = append(e.extra, "controlAlgorithm:\n      pid:\n        p: 0.3\n        i: 0.02\n        d: 0.005")
		case 4:
			if defect(0.6) {
				e.extra = append(e.extra, kernel.Pick(r, "controlAlgorithm: {}", "controlAlgorithm:\n      direct:\n        maxPwmChangePerCycle: 0", "controlAlgorithm:\n      pid:\n        p: 0\n        i: 0\n        d: 0"))
			}
		}
		if r.Bool(0.3) {
			e.extra = append(e.extra, fmt.Sprintf("minPwm: %d\n    maxPwm: %d", r.Range(0, 60), r.Range(100, 255)))
		}
		if r.Bool(0.3) {
			e.extra = append(e.extra, "pwmMap:\n      0: 0\n      64: 128\n      192: 255")
		} else if defect(0.12) {
			e.extra = append(e.extra, "pwmMap: {}")
		}
		if defect(0.05) && i > 0 {
			e.id = fans[0].id
		}
		e.idLine = "id: " + e.id
		fans = append(fans, e)
		if k%4 == 2 {
			preseedRpmCurve(sc, e.id, linearRpmCurve(20, 255, 2000))
		}
	}
	var b strings.Builder
	b.WriteString("dbPath: @W@/db/fan2go.db\n")
	b.WriteString("tempSensorPollingRate: 200ms\nrpmPollingRate: 1s\ncontrollerAdjustmentTickRate: 200ms\nrunFanInitializationInParallel: true\n")
	render := func(name string, es []docEntry) {
		b.WriteString(name + ":\n")
		for _, e := range es {
			first := true
			line := func(s string) {
				if first {
					b.WriteString("  - " + strings.TrimPrefix(s, "    ") + "\n")
					first = false
				} else {
					b.WriteString(s + "\n")
				}
			}
			if e.idLine != "" {
				line("    " + e.idLine)
			}
			for _, be := range e.backends {
				line(be)
			}
			for _, x := range e.extra {
				line("    " + x)
			}
			if first {
				b.WriteString("  - {}\n")
			}
		}
	}
	if cycleLen > 0 && r.Bool(0.6) {
		// somebody else also uses a curve of the cycle
		members := []string{ids[r.Intn(cycleLen)]}
		if r.Bool(0.5) {
			members = append(members, ids[r.Intn(nc)])
		}
		e := docEntry{id: "curx", idLine: "id: curx"}
		e.backends = []string{"    function:\n      type: " + kernel.Pick(r, ftypes...) + "\n      curves:\n        - " + strings.Join(members, "\n        - ")}
		curvs = append(curvs, e)
	}
	// the one defect of a one-defect document: a second entry with an id that is already taken (a copy of
	// an existing entry, so that nothing else about the document changes)
	dupRand := kernel.NewRand(seed, "c11.dupentry")
	switch dupOnly {
	case "sensor":
		sens = append(sens, sens[dupRand.Intn(len(sens))])
	case "curve":
		curvs = append(curvs, curvs[dupRand.Intn(len(curvs))])
	case "fan":
		fans = append(fans, fans[dupRand.Intn(len(fans))])
	}
	// the order of entries in the document is independent of who references whom:
	// list the curves in a seeded order (forward references are legal)
	for i := len(curvs) - 1; i > 0; i-- {
		j := r.Intn(i + 1)
		curvs[i], curvs[j] = curvs[j], curvs[i]
	}
	render("fans", fans)
	render("sensors", sens)
	render("curves", curvs)
	sc.RawYAML = b.String()
	return sc
}

// ---------------------------------------------------------------------------
// independent spec validator over the YAML text

type specVerdict struct {
	ok      bool
	reasons []string
	fanIDs  []string
	curves  map[string][]string // function curve → members
}

func asList(v any) []any {
	l, _ := v.([]any)
	return l
}

func asMap(v any) map[string]any {
	switch m := v.(type) {
	case map[string]any:
		return m
	case map[any]any:
		out := map[string]any{}
		for k, x := range m {
			out[fmt.Sprint(k)] = x
		}
		return out
	}
	return nil
}

func lower(m map[string]any) map[string]any {
	out := map[string]any{}
	for k, v := range m {
		out[strings.ToLower(k)] = v
	}
	return out
}

func specValidate(doc string) specVerdict {
	v := specVerdict{ok: true, curves: map[string][]string{}}
	bad := func(format string, a ...any) {
		v.ok = false
		v.reasons = append(v.reasons, fmt.Sprintf(format, a...))
	}
	var root map[string]any
	doc = strings.ReplaceAll(doc, "@W@", "/W")
	if err := yaml.Unmarshal([]byte(doc), &root); err != nil {
		bad("yaml: %v", err)
		return v
	}
	root = lower(root)
	ids := func(section string, backends []string) ([]map[string]any, map[string]bool) {
		seen := map[string]bool{}
		var entries []map[string]any
		for _, e := range asList(root[section]) {
			m := lower(asMap(e))
			entries = append(entries, m)
			id := fmt.Sprint(m["id"])
			if m["id"] == nil {
				id = ""
			}
			if seen[id] {
				bad("%s: duplicate id %q", section, id)
			}
			seen[id] = true
			n := 0
			for _, be := range backends {
				if m[be] != nil {
					n++
				}
			}
			if n != 1 {
				bad("%s %q: %d backends", section, id, n)
			}
		}
		return entries, seen
	}
	sensorsE, sensorIDs := ids("sensors", []string{"hwmon", "file", "cmd"})
	_ = sensorsE
	curvesE, curveIDs := ids("curves", []string{"linear", "pid", "function"})
	fansE, _ := ids("fans", []string{"hwmon", "file", "cmd"})
	for _, c := range curvesE {
		id := fmt.Sprint(c["id"])
		for _, k := range []string{"linear", "pid"} {
			if c[k] == nil {
				continue
			}
			if sub := lower(asMap(c[k])); sub != nil {
				if !sensorIDs[fmt.Sprint(sub["sensor"])] {
					bad("curve %q: unresolvable sensor %v", id, sub["sensor"])
				}
			}
		}
		if sub := lower(asMap(c["function"])); c["function"] != nil {
			var members []string
			memberList := asList(sub["curves"])
			if str, ok := sub["curves"].(string); ok {
				// one string: the ids between the commas, exactly as typed (an empty string: no members)
				for _, part := range strings.Split(str, ",") {
					if str != "" {
						memberList = append(memberList, part)
					}
				}
			}
			for _, m := range memberList {
				members = append(members, fmt.Sprint(m))
				if !curveIDs[fmt.Sprint(m)] {
					bad("curve %q: unresolvable curve %v", id, m)
				}
			}
			v.curves[id] = members
		}
	}
	for _, f := range fansE {
		if !curveIDs[fmt.Sprint(f["curve"])] || f["curve"] == nil {
			bad("fan %v: unresolvable curve %v", f["id"], f["curve"])
		}
		v.fanIDs = append(v.fanIDs, fmt.Sprint(f["id"]))
	}
	// acyclic
	state := map[string]int{}
	var visit func(id string) bool
	visit = func(id string) bool {
		switch state[id] {
		case 1:
			return false
		case 2:
			return true
		}
		state[id] = 1
		for _, m := range v.curves[id] {
			if !visit(m) {
				return false
			}
		}
		state[id] = 2
		return true
	}
	var cids []string
	for id := range v.curves {
		cids = append(cids, id)
	}
	sort.Strings(cids)
	for _, id := range cids {
		if !visit(id) {
			bad("curve graph has a cycle through %q", id)
			break
		}
	}
	return v
}

// ---------------------------------------------------------------------------

func runC11(t *testing.T, sc *world.Scenario) *check.Result {
	res := check.NewResult(sc.Family, sc.Seed)
	res.ScHash = scHash(sc)
	res.Sample = fmt.Sprintf("c11 seed=%d %s yaml=%q", sc.Seed, sc.Variant, compactYAML(sc.RawYAML))
	worldDir, outDir := l2Dirs()
	defer l2Cleanup(worldDir)
	// 1. the real validator
	vsc := sc.Clone()
	vsc.Horizon = sec(5)
	co := runChild(&childSpec{Scenario: vsc, WorldDir: worldDir, OutDir: outDir, Args: []string{"config", "validate"}}, 60*time.Second)
	if stuckViolation(res, "C11", co) {
		return res
	}
	if co.Harness != "" {
		res.Harness = co.Harness + "\n" + tailStr(co.Stderr, 1200)
		return res
	}
	accepted := co.ExitCode == 0 && co.hasNote("program-returned") && co.PanicMsg == ""
	spec := specValidate(sc.RawYAML)
	res.Probe("documents")
	res.Nontrivial = true
	res.State(fmt.Sprintf("%s|accepted=%v|spec=%v", sc.Variant, accepted, spec.ok))
	if accepted {
		res.Probe("accepted")
	} else {
		res.Probe("rejected")
		if co.PanicMsg != "" {
			res.Probe("rejected-by-panic(decode)")
		}
	}
	if sc.Variant == "documented-forms-only" {
		res.Probe("documented-forms-documents")
		if !spec.ok {
			res.Harness = "c11: generator produced a spec-invalid document in documented-forms mode: " + strings.Join(spec.reasons, "; ")
			return res
		}
		if !accepted {
			res.Violate("C11", "documented-forms-accepted", "documented-forms-accepted", 0, nil,
				"a configuration assembled only from documented forms was rejected (exit %d): %s", co.ExitCode, tailStr(strings.TrimSpace(co.Stderr), 300))
			return res
		}
	}
	if !accepted {
		return res
	}
	if !spec.ok {
		res.Violate("C11", "accepted-implies-spec", "accepted-implies-spec "+reasonClass(spec.reasons[0]), 0, nil,
			"`fan2go config validate` accepted a configuration that is not well-formed: %s", strings.Join(spec.reasons, "; "))
		return res
	}
	// 2. accepted: boot and run it
	co2 := runChild(&childSpec{Scenario: sc, WorldDir: worldDir, OutDir: outDir, Sweep: true}, 120*time.Second)
	accumulate(res, co2)
	if co2.Harness != "" {
		res.Harness = co2.Harness + "\n" + tailStr(co2.Stderr, 1200)
		return res
	}
	res.Probe("accepted-and-booted")
	if co2.PanicMsg != "" {
		res.Violate("C11", "accepted-runs", "accepted-runs panic at "+co2.PanicSite+" "+panicClass(co2.PanicMsg), 0, nil,
			"the accepted configuration crashes when instantiated and run: %s (at %s)", co2.PanicMsg, co2.PanicSite)
		return res
	}
	if co2.End != "horizon" {
		res.Violate("C11", "accepted-runs", fmt.Sprintf("accepted-runs exits status=%d", co2.ExitCode), 0, nil,
			"the accepted configuration makes the daemon exit with status %d at start-up: %s", co2.ExitCode, tailStr(strings.TrimSpace(co2.Stderr), 300))
		return res
	}
	ticks := map[string]int{}
	for _, ev := range co2.Events {
		if ev.Kind == "yield" && ev.Site == "ctl.tick" {
			ticks[ev.ID]++
		}
	}
	for _, id := range spec.fanIDs {
		if ticks[id] < 5 {
			res.Violate("C11", "accepted-runs", "accepted-runs stall", 0, nil, "fan %q of the accepted configuration ran only %d control cycles in %s", id, ticks[id], sc.Horizon.D())
		}
	}
	if co2.hasNote("curves-swept") {
		res.Probe("curves-swept")
	}
	return res
}

func compactYAML(s string) string {
	s = strings.ReplaceAll(s, "\n", "⏎")
	if len(s) > 700 {
		s = s[:700] + "…"
	}
	return s
}

func reasonClass(r string) string {
	for _, k := range []string{"duplicate id", "backends", "unresolvable sensor", "unresolvable curve", "cycle", "yaml"} {
		if strings.Contains(r, k) {
			return strings.ReplaceAll(k, " ", "-")
		}
	}
	return "other"
}

func panicClass(msg string) string {
	for _, k := range []string{"index out of range", "divide by zero", "nil pointer", "stack overflow", "stack exceeds"} {
		if strings.Contains(msg, k) {
			return strings.ReplaceAll(k, " ", "-")
		}
	}
	return "other"
}

// c11CurveSweep (child side): once the daemon is up, evaluate every curve
// under several sensor states.
func c11CurveSweep(k *kernel.Kernel, w *world.World, sc *world.Scenario, write func(journalLine)) {
	k.At(10*time.Second, "curve-sweep", func() {
		all := curves.SnapshotSpeedCurveMap()
		ids := make([]string, 0, len(all))
		for id := range all {
			ids = append(ids, id)
		}
		sort.Strings(ids)
		sens := sensors.SnapshotSensorMap()
		for _, temp := range []float64{-5000, 0, 25000, 49999, 61000, 120000} {
			for _, s := range sens {
				s.SetMovingAvg(temp)
			}
			for _, id := range ids {
				if c, ok := curves.GetSpeedCurve(id); ok {
					_, _ = c.Evaluate()
				}
			}
		}
		write(journalLine{Note: fmt.Sprintf("curves-swept %d", len(ids))})
	})
}
