package worker

import (
	"encoding/json"
	"fmt"
	"testing"
	"time"

	"github.com/markusressel/fan2go/zverif/check"
	"github.com/markusressel/fan2go/zverif/kernel"
	"github.com/markusressel/fan2go/zverif/refmodel"
	"github.com/markusressel/fan2go/zverif/stage"
	"github.com/markusressel/fan2go/zverif/world"
	bolt "go.etcd.io/bbolt"
)

// C13 — measured fan limits follow the RPM curve; configured limits always win.

func init() {
	register(&Family{Name: "c13", Gen: genC13, Run: runC13})
	register(&Family{Name: "c13init", Gen: genC13Init, Run: runC13})
}

func genCurveData(r *kernel.Rand) map[int]float64 {
	m := map[int]float64{}
	kind := r.Intn(8)
	switch kind {
	case 0: // all zero
		for i := 0; i < r.Range(1, 10); i++ {
			m[r.Range(0, 255)] = 0
		}
	case 1: // single point
		m[r.Range(0, 255)] = float64(kernel.Pick(r, 0, 1, 900, 2500))
	default:
		n := kernel.Pick(r, 2, 3, 8, 20, 256)
		start := r.Range(0, 200)
		plateau := r.Range(start, 255)
		maxRpm := float64(r.Range(500, 4000))
		for i := 0; i < n; i++ {
			k := r.Range(0, 255)
			if n == 256 {
				k = i
			}
			v := 0.0
			if k >= start {
				x := k
				if x > plateau {
					x = plateau
				}
				v = 1 + (maxRpm-1)*float64(x-start+1)/float64(plateau-start+1)
				v = float64(int(v))
			}
			if kind == 2 && r.Bool(0.2) {
				v = float64(int(v * (0.6 + r.Float()*0.8))) // non-monotone bumps
			}
			if kind == 3 && r.Bool(0.3) {
				v += 0.5 // fractional part above a whole RPM
			}
			if kind == 5 && k > start && r.Bool(0.15) {
				v = 0 // a tachometer drop-out: one sample reads 0 although the fan was turning
			}
			m[k] = v
		}
		if kind == 4 {
			m[-5] = 0
			m[300] = maxRpm // keys outside 0..255 as stored data may contain anything
			delete(m, -5)
			delete(m, 300)
		}
	}
	return m
}

func genC13(seed uint64, tier string) *world.Scenario {
	sc, r := baseScenario("c13", seed)
	chip := addChip(sc, "simchip")
	sc.Horizon = sec(11)
	sc.Tick = ms(200)
	nf := r.Range(1, 2)
	for i := 0; i < nf; i++ {
		_, cid := addSensorCurve(sc, r, i, "file", constTemp(tempForCurve(r.Range(0, 255))), chip)
		f := world.FanSpec{ID: fmt.Sprintf("f%d", i), Kind: "hwmon", Curve: cid, Chip: chip, Channel: i + 1, Algo: world.AlgoSpec{Kind: "direct"}}
		f.Plant = defaultPlant(r)
		f.Plant.MinRpm = 200
		f.Driver = world.DriverSpec{InitMode: 2, InitPwm: r.Range(0, 255), AutoPwm: 100}
		im := identityMap()
		f.PwmMap = &im
		f.NeverStop = r.Bool(0.5)
		if r.Bool(0.5) {
			f.MinPwm = world.IntP(r.Range(0, 255))
		}
		if r.Bool(0.5) {
			f.StartPwm = world.IntP(r.Range(0, 254))
		}
		if r.Bool(0.5) {
			f.MaxPwm = world.IntP(r.Range(0, 255))
		}
		data := genCurveData(r)
		if r.Bool(0.06) {
			data = map[int]float64{} // empty stored data
		}
		preseedRpmCurve(sc, f.ID, data)
		sc.Fans = append(sc.Fans, f)
	}
	// second attachment of different data to the registered fan
	if r.Bool(0.7) {
		d2, _ := json.Marshal(genCurveData(r))
		sc.Env = append(sc.Env, world.EnvEvent{At: sec(6 + r.Float()*2), Kind: "attach", Fan: "f0", Text: string(d2)})
		if r.Bool(0.4) {
			d3, _ := json.Marshal(genCurveData(r))
			sc.Env = append(sc.Env, world.EnvEvent{At: sec(8.5 + r.Float()), Kind: "attach", Fan: "f0", Text: string(d3)})
		}
	}
	return sc
}

// genC13Init: no stored data - the real initialisation sequence measures the plant.
func genC13Init(seed uint64, tier string) *world.Scenario {
	sc, r := baseScenario("c13init", seed)
	chip := addChip(sc, "simchip")
	sc.FanResponseDelay = 1
	sc.Tick = ms(500)
	sc.RpmPoll = ms(1000)
	sc.TempPoll = ms(500)
	_, cid := addSensorCurve(sc, r, 0, "file", constTemp(tempForCurve(r.Range(0, 255))), chip)
	f := world.FanSpec{ID: "f0", Kind: "hwmon", Curve: cid, Chip: chip, Channel: 1, Algo: world.AlgoSpec{Kind: "direct"}}
	f.Plant = world.PlantSpec{MaxRpm: r.Range(800, 3000), StartThr: r.Range(0, 120), TauMs: r.Range(50, 400), InitRpm: 600}
	f.Plant.StopThr = f.Plant.StartThr
	if r.Bool(0.6) {
		f.Plant.MaxEff = r.Range(max(f.Plant.StartThr, 100), 255)
	}
	if r.Bool(0.3) {
		f.Plant.Bump = r.Range(5, 60)
	}
	f.Driver = world.DriverSpec{InitMode: 2, InitPwm: r.Range(0, 255), AutoPwm: 100}
	if r.Bool(0.6) {
		f.Driver.Quant, f.Driver.K = "mult", kernel.Pick(r, 5, 8, 16, 32)
		f.Driver.InitPwm = world.Quantise(&f.Driver, f.Driver.InitPwm)
	}
	f.NeverStop = r.Bool(0.5)
	if r.Bool(0.3) {
		f.MinPwm = world.IntP(r.Range(0, 255))
	}
	if r.Bool(0.3) {
		f.StartPwm = world.IntP(r.Range(0, 254))
	}
	if r.Bool(0.3) {
		f.MaxPwm = world.IntP(r.Range(0, 255))
	}
	sc.Fans = append(sc.Fans, f)
	distinct := 256
	if f.Driver.Quant == "mult" {
		distinct = 256/f.Driver.K + 1
	}
	sc.Horizon = sec(float64(distinct)*1.02 + 25)
	return sc
}

type c13Fan struct {
	spec     *world.FanSpec
	data     map[int]float64
	haveData bool
	judged   int
	attaches int
}

type c13Oracle struct {
	st  *stage.Stage
	res *check.Result
	f   map[string]*c13Fan
	ct  *CycleTracker
}

func (o *c13Oracle) OnEvent(ev *kernel.Event) {
	if ev.Kind == "env" && len(ev.Site) >= 6 && ev.Site[:6] == "attach" {
		if smp, ok := ev.Sample.(*c13Attach); ok {
			lf := o.f[smp.Fan]
			lf.attaches++
			if smp.Err == "" {
				lf.data, lf.haveData = smp.Data, true
			} else if len(smp.Data) != 0 {
				o.res.Violate("C13", "attach-accepts-data", "attach-accepts-data", ev.Seq, ev.T, "fan %s: attaching %d measurements failed: %s", smp.Fan, len(smp.Data), smp.Err)
			}
			o.check(ev.Seq, ev.T, lf, smp.After, fmt.Sprintf("after attach #%d", lf.attaches+1))
			o.res.Probe("re-attach-judged")
		}
		return
	}
	o.ct.OnEvent(ev)
}

type c13Attach struct {
	Fan   string          `json:"fan"`
	Data  map[int]float64 `json:"data"`
	Err   string          `json:"err"`
	After *CycleSample    `json:"after"`
}

func (o *c13Oracle) check(seq int, t time.Duration, lf *c13Fan, s *CycleSample, when string) {
	if s == nil || !lf.haveData {
		return
	}
	res := o.res
	f := lf.spec
	start, max, ok := refmodel.Limits(lf.data)
	if !ok {
		return
	}
	lf.judged++
	combo := fmt.Sprintf("cfg[min=%v start=%v max=%v] neverStop=%v", f.MinPwm != nil, f.StartPwm != nil, f.MaxPwm != nil, f.NeverStop)
	viol := func(clause, format string, a ...any) {
		res.Violate("C13", clause, clause+" "+combo+" "+whenClass(when), seq, durStr(t), format, a...)
	}
	for name, v := range map[string]int{"min": s.MinPwm, "start": s.StartPwm, "max": s.MaxPwm} {
		if v < 0 || v > 255 {
			viol("range", "fan %s %s: %s PWM %d outside 0..255", f.ID, when, name, v)
		}
	}
	if !f.NeverStop && s.MinPwm != 0 {
		viol("min-zero-without-neverstop", "fan %s %s: not neverStop but minimum is %d", f.ID, when, s.MinPwm)
	}
	if f.NeverStop && f.MinPwm != nil && s.MinPwm != *f.MinPwm {
		viol("configured-min-wins", "fan %s %s: configured minPwm %d, effective %d", f.ID, when, *f.MinPwm, s.MinPwm)
	}
	if f.StartPwm != nil && s.StartPwm != *f.StartPwm {
		viol("configured-start-wins", "fan %s %s: configured startPwm %d, effective %d", f.ID, when, *f.StartPwm, s.StartPwm)
	}
	if f.MaxPwm != nil && s.MaxPwm != *f.MaxPwm {
		viol("configured-max-wins", "fan %s %s: configured maxPwm %d, effective %d", f.ID, when, *f.MaxPwm, s.MaxPwm)
	}
	degenerate := start < 0 // no measurement with rotation at all
	if degenerate {
		res.Probe("degenerate-all-zero")
		return
	}
	if f.StartPwm == nil && s.StartPwm != start {
		viol("measured-start", "fan %s %s: start PWM %d, lowest measured PWM with rotation is %d", f.ID, when, s.StartPwm, start)
	}
	if f.MaxPwm == nil && s.MaxPwm != max {
		viol("measured-max", "fan %s %s: max PWM %d, lowest measured PWM reaching the highest whole RPM is %d", f.ID, when, s.MaxPwm, max)
	}
	res.Probe("limits-judged")
}

type durStr time.Duration

func (d durStr) String() string { return time.Duration(d).String() }

func whenClass(when string) string {
	if len(when) >= 12 && when[:12] == "after attach" {
		return "re-attach"
	}
	return "start-up"
}

func (o *c13Oracle) Finish(st *stage.Stage, res *check.Result) {
	for id, lf := range o.f {
		empty := false
		for _, e := range st.Sc.DB {
			if e.Bucket == "fans" && e.Key == id && e.Value == "{}" {
				empty = true
			}
		}
		if empty {
			res.Probe("empty-data")
			e, ended := st.ActorErr["ctl:"+id]
			if !ended || e == "" {
				res.Violate("C13", "empty-data-refused", "empty-data-refused", 0, nil, "fan %s: stored curve data is empty but start-up did not fail (ended=%v err=%q)", id, ended, e)
			}
			continue
		}
		if lf.judged == 0 && st.Sc.Family == "c13" {
			res.Probe("fan-never-judged")
		}
		res.State(fmt.Sprintf("cfg[%v %v %v]|ns=%v|attaches=%d", lf.spec.MinPwm != nil, lf.spec.StartPwm != nil, lf.spec.MaxPwm != nil, lf.spec.NeverStop, lf.attaches))
	}
	res.Nontrivial = res.Probes["limits-judged"] > 0 || res.Probes["degenerate-all-zero"] > 0 || res.Probes["empty-data"] > 0
}

func readStoredCurve(path, fanID string) (map[int]float64, bool) {
	db, err := bolt.Open(path, 0600, &bolt.Options{Timeout: time.Second, ReadOnly: true})
	if err != nil {
		return nil, false
	}
	defer db.Close()
	var out map[int]float64
	_ = db.View(func(tx *bolt.Tx) error {
		b := tx.Bucket([]byte("fans"))
		if b == nil {
			return nil
		}
		v := b.Get([]byte(fanID))
		if v != nil {
			_ = json.Unmarshal(v, &out)
		}
		return nil
	})
	return out, out != nil
}

func runC13(t *testing.T, sc *world.Scenario) *check.Result {
	return runL1(t, sc, func(st *stage.Stage, res *check.Result) []Oracle {
		st.W.Sampler = cycleSampler(st)
		o := &c13Oracle{st: st, res: res, f: map[string]*c13Fan{}, ct: NewCycleTracker(st)}
		for i := range sc.Fans {
			lf := &c13Fan{spec: &sc.Fans[i]}
			if m := seededCurve(sc, sc.Fans[i].ID); m != nil {
				lf.data, lf.haveData = m, true
			}
			o.f[sc.Fans[i].ID] = lf
		}
		o.ct.OnCycle = func(c *Cycle) {
			lf := o.f[c.Fan]
			if lf == nil {
				return
			}
			if !lf.haveData {
				// measured by the real initialisation sequence: the reference works on what was stored
				if m, ok := readStoredCurve(st.W.DBPath(), c.Fan); ok {
					lf.data, lf.haveData = m, true
					res.Probe("measured-by-init-sequence")
				}
			}
			when := "at start-up"
			if lf.attaches > 0 {
				when = fmt.Sprintf("after attach #%d (cycle end)", lf.attaches+1)
			}
			o.check(c.EndPSeq, c.EndT, lf, c.After, when)
		}
		st.ExtraEnv = func(e world.EnvEvent) func() {
			if e.Kind != "attach" {
				return nil
			}
			return func() {
				fan := st.Fans[e.Fan]
				if fan == nil {
					return
				}
				data := map[int]float64{}
				_ = json.Unmarshal([]byte(e.Text), &data)
				cp := map[int]float64{}
				for k, v := range data {
					cp[k] = v
				}
				err := fan.AttachFanRpmCurveData(&cp)
				smp := &c13Attach{Fan: e.Fan, Data: data}
				if err != nil {
					smp.Err = err.Error()
				}
				smp.After = &CycleSample{MinPwm: fan.GetMinPwm(), StartPwm: fan.GetStartPwm(), MaxPwm: fan.GetMaxPwm()}
				if ev := st.K.Current(); ev != nil {
					ev.Sample = smp
				}
			}
		}
		return []Oracle{o}
	})
}
