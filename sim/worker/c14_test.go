package worker

import (
	"bytes"
	"encoding/json"
	"errors"
	"fmt"
	"math"
	"os"
	"os/exec"
	"path/filepath"
	"reflect"
	"strings"
	"testing"
	"time"

	"github.com/anishathalye/porcupine"
	"github.com/markusressel/fan2go/internal/configuration"
	"github.com/markusressel/fan2go/internal/fans"
	"github.com/markusressel/fan2go/internal/persistence"
	"github.com/markusressel/fan2go/zverif/check"
	"github.com/markusressel/fan2go/zverif/kernel"
	"github.com/markusressel/fan2go/zverif/stage"
	"github.com/markusressel/fan2go/zverif/world"
	bolt "go.etcd.io/bbolt"
)

// C14 — stored fan data round-trips and is isolated per fan and per kind.
// c14: seeded operation sequences against an in-memory model, reading back ALL
// entries after every step. c14crash: a worker process executes a sequence and
// is killed (SIGKILL injected by strace at the k-th write-type syscall) for
// every k; a fresh process reads everything back through the real code.

func init() {
	register(&Family{Name: "c14", Gen: func(seed uint64, tier string) *world.Scenario { return genC14("c14", seed) }, Run: runC14})
	register(&Family{Name: "c14err", Gen: func(seed uint64, tier string) *world.Scenario { return genC14("c14err", seed) }, Run: runC14Err})
	register(&Family{Name: "c14crash", Gen: func(seed uint64, tier string) *world.Scenario { return genC14("c14crash", seed) }, Run: runC14Crash})
}

func genC14(fam string, seed uint64) *world.Scenario {
	sc := &world.Scenario{Family: fam, Seed: seed, Params: map[string]float64{}}
	r := kernel.NewRand(seed, "c14")
	sc.Params["ops"] = float64(r.Range(5, 60))
	return sc
}

type pOp struct {
	Op   string          `json:"op"` // save | load | delete | corrupt
	Kind string          `json:"kind"`
	ID   string          `json:"id"`
	Data map[int]float64 `json:"data,omitempty"`
	Map  map[int]int     `json:"map,omitempty"`
}

var c14IDs = []string{"cpu", "cpu2", "CPU", "gpu fan/1", "f"} // one id a prefix of another, two differing in case only

func genData(r *kernel.Rand) map[int]float64 {
	m := map[int]float64{}
	n := kernel.Pick(r, 0, 1, 3, 10, 256)
	for i := 0; i < n; i++ {
		k := r.Range(-20, 300)
		if n == 256 {
			k = i
		}
		v := float64(r.Range(0, 5000))
		switch r.Intn(6) {
		case 0:
			v += r.Float()
		case 1:
			v = kernel.Pick(r, 1e300, -1e300, 5e-324, 0.1, -0.0, 1e15+0.5)
		}
		m[k] = v
	}
	return m
}

func genMap(r *kernel.Rand) map[int]int {
	m := map[int]int{}
	n := kernel.Pick(r, 0, 1, 4, 17, 256)
	for i := 0; i < n; i++ {
		k := r.Range(-5, 260)
		if n == 256 {
			k = i
		}
		m[k] = r.Range(-1, 255)
	}
	return m
}

func genOps(seed uint64, n int, crashMode bool) []pOp {
	r := kernel.NewRand(seed, "c14.ops")
	var ops []pOp
	for i := 0; i < n; i++ {
		op := pOp{Kind: kernel.Pick(r, "curve", "map"), ID: c14IDs[r.Intn(len(c14IDs))]}
		switch x := r.Intn(10); {
		case x < 5:
			op.Op = "save"
			if op.Kind == "curve" {
				op.Data = genData(r)
			} else {
				op.Map = genMap(r)
			}
		case x < 7:
			op.Op = "load"
		case x < 9:
			op.Op = "delete"
		default:
			op.Op = "corrupt"
			if crashMode {
				op.Op = "delete"
			}
		}
		ops = append(ops, op)
	}
	return ops
}

func fanFor(id string, data map[int]float64) fans.Fan {
	d := map[int]float64{}
	for k, v := range data {
		d[k] = v
	}
	return &fans.HwMonFan{Config: configuration.FanConfig{ID: id}, FanCurveData: &d}
}

// applyOp runs one operation through the real persistence code.
func applyOp(p persistence.Persistence, dbPath string, op pOp) (result any, err error) {
	switch op.Op + ":" + op.Kind {
	case "save:curve":
		return nil, p.SaveFanPwmData(fanFor(op.ID, op.Data))
	case "save:map":
		cp := map[int]int{}
		for k, v := range op.Map {
			cp[k] = v
		}
		return nil, p.SaveFanPwmMap(op.ID, cp)
	case "load:curve":
		return p.LoadFanPwmData(fanFor(op.ID, nil))
	case "load:map":
		return p.LoadFanPwmMap(op.ID)
	case "delete:curve":
		return nil, p.DeleteFanPwmData(fanFor(op.ID, nil))
	case "delete:map":
		return nil, p.DeleteFanPwmMap(op.ID)
	case "corrupt:curve", "corrupt:map":
		bucket := persistence.BucketFans
		if op.Kind == "map" {
			bucket = persistence.BucketFanPwmMap
		}
		db, e := bolt.Open(dbPath, 0600, &bolt.Options{Timeout: time.Second})
		if e != nil {
			return nil, e
		}
		defer db.Close()
		return nil, db.Update(func(tx *bolt.Tx) error {
			b, e := tx.CreateBucketIfNotExists([]byte(bucket))
			if e != nil {
				return e
			}
			return b.Put([]byte(op.ID), []byte("{\"1\": oops \xff"))
		})
	}
	return nil, fmt.Errorf("bad op")
}

type modelEntry struct {
	present bool
	corrupt bool
	data    map[int]float64
	m       map[int]int
}

type c14Model map[string]*modelEntry // kind|id

func (m c14Model) get(kind, id string) *modelEntry {
	k := kind + "|" + id
	if m[k] == nil {
		m[k] = &modelEntry{}
	}
	return m[k]
}

func (m c14Model) apply(op pOp) {
	e := m.get(op.Kind, op.ID)
	switch op.Op {
	case "save":
		*e = modelEntry{present: true, data: op.Data, m: op.Map}
	case "delete":
		*e = modelEntry{}
	case "corrupt":
		*e = modelEntry{present: true, corrupt: true}
	}
}

func sameData(a, b map[int]float64) bool {
	if len(a) != len(b) {
		return false
	}
	for k, v := range a {
		w, ok := b[k]
		if !ok || !(v == w || (math.IsNaN(v) && math.IsNaN(w))) || math.Signbit(v) != math.Signbit(w) {
			return false
		}
	}
	return true
}

// checkEntry loads one entry through the real code and compares it with the model.
// It returns a description of the mismatch ("" = fine) and updates the model for discarded corrupt entries.
func checkEntry(p persistence.Persistence, model c14Model, kind, id string) string {
	e := model.get(kind, id)
	var err error
	var gotD map[int]float64
	var gotM map[int]int
	if kind == "curve" {
		gotD, err = p.LoadFanPwmData(fanFor(id, nil))
	} else {
		gotM, err = p.LoadFanPwmMap(id)
	}
	switch {
	case e.corrupt:
		// the undecodable entry is discarded; this load may report not-found or nothing, never data, never another error
		*e = modelEntry{}
		if err != nil && !errors.Is(err, os.ErrNotExist) {
			return fmt.Sprintf("load of the undecodable %s entry of %q failed with %v", kind, id, err)
		}
		if len(gotD) > 0 || len(gotM) > 0 {
			return fmt.Sprintf("load of the undecodable %s entry of %q returned data", kind, id)
		}
	case !e.present:
		if !errors.Is(err, os.ErrNotExist) {
			return fmt.Sprintf("%s entry of %q is absent, load returned err=%v data=%v%v (want not-found)", kind, id, err, gotD, gotM)
		}
	default:
		if err != nil {
			return fmt.Sprintf("%s entry of %q was saved, load failed: %v", kind, id, err)
		}
		if kind == "curve" && !sameData(gotD, e.data) {
			return fmt.Sprintf("curve data of %q: loaded %v, saved %v", id, gotD, e.data)
		}
		if kind == "map" && !(len(gotM) == len(e.m) && (len(gotM) == 0 || reflect.DeepEqual(gotM, e.m))) {
			return fmt.Sprintf("pwm map of %q: loaded %v, saved %v", id, gotM, e.m)
		}
	}
	return ""
}

func runC14(t *testing.T, sc *world.Scenario) *check.Result {
	res := check.NewResult(sc.Family, sc.Seed)
	res.ScHash = scHash(sc)
	n := int(sc.Params["ops"])
	ops := genOps(sc.Seed, n, false)
	res.Sample = fmt.Sprintf("c14 seed=%d ops=%d first=%s", sc.Seed, n, opsSummary(ops, 8))
	dir, err := os.MkdirTemp(shmBase2(), fmt.Sprintf("verif-c14-%d-", os.Getpid()))
	if err != nil {
		res.Harness = err.Error()
		return res
	}
	defer os.RemoveAll(dir)
	dbPath := filepath.Join(dir, "sub", "fan2go.db")
	p := persistence.NewPersistence(dbPath)
	if err := p.Init(); err != nil {
		res.Harness = "Init: " + err.Error()
		return res
	}
	model := c14Model{}
	for i, op := range ops {
		result, err := applyOp(p, dbPath, op)
		res.Probe("ops:" + op.Op)
		e := model.get(op.Kind, op.ID)
		switch op.Op {
		case "save", "delete", "corrupt":
			if err != nil {
				res.Violate("C14", op.Op+"-succeeds", op.Op+"-succeeds kind="+op.Kind, i, nil, "step %d %s %s %q failed: %v", i, op.Op, op.Kind, op.ID, err)
				return res
			}
			if op.Op == "delete" && !e.present {
				res.Probe("delete-of-absent-entry")
			}
			model.apply(op)
		case "load":
			_ = result
			if msg := checkEntry(p, model, op.Kind, op.ID); msg != "" {
				res.Violate("C14", "load-matches-model", "load-matches-model kind="+op.Kind, i, nil, "step %d: %s (history: %s)", i, msg, opsSummary(ops[:i+1], 12))
				return res
			}
		}
		// after every step: read back ALL entries of both kinds (isolation)
		for _, kind := range []string{"curve", "map"} {
			for _, id := range c14IDs {
				if msg := checkEntry(p, model, kind, id); msg != "" {
					res.Violate("C14", "isolation", "isolation after="+op.Op+":"+op.Kind+" broken="+kind, i, nil,
						"after step %d (%s %s %q): %s (history: %s)", i, op.Op, op.Kind, op.ID, msg, opsSummary(ops[:i+1], 12))
					return res
				}
			}
		}
		res.Probe("steps-judged")
	}
	res.Events = n
	res.Nontrivial = true
	res.State(fmt.Sprintf("ops=%d", n/10*10))
	return res
}

func opsSummary(ops []pOp, n int) string {
	var p []string
	for i, op := range ops {
		if len(ops)-i > n {
			continue
		}
		size := len(op.Data) + len(op.Map)
		p = append(p, fmt.Sprintf("%s %s %q(%d)", op.Op, op.Kind, op.ID, size))
	}
	return strings.Join(p, "; ")
}

// ---------------------------------------------------------------------------
// crash points

type c14ChildSpec struct {
	DB   string `json:"db"`
	Ack  string `json:"ack"`
	Ops  []pOp  `json:"ops"`
	Mode string `json:"mode"` // run | dump
}

// TestC14Child executes the sequence (acknowledging every completed operation)
// or dumps all entries; it runs as its own process, possibly under strace.
func TestC14Child(t *testing.T) {
	specPath := os.Getenv("VERIF_C14_SPEC")
	if specPath == "" {
		t.Skip()
	}
	data, _ := os.ReadFile(specPath)
	var spec c14ChildSpec
	if err := json.Unmarshal(data, &spec); err != nil {
		t.Fatal(err)
	}
	p := persistence.NewPersistence(spec.DB)
	if spec.Mode == "dump" {
		out := map[string]any{}
		for _, id := range c14IDs {
			d, err := p.LoadFanPwmData(fanFor(id, nil))
			out["curve|"+id] = map[string]any{"data": d, "err": errText(err)}
			m, err := p.LoadFanPwmMap(id)
			out["map|"+id] = map[string]any{"map": m, "err": errText(err)}
		}
		b, _ := json.Marshal(out)
		_ = os.WriteFile(spec.Ack, b, 0644)
		return
	}
	ack, err := os.OpenFile(spec.Ack, os.O_CREATE|os.O_WRONLY|os.O_APPEND, 0644)
	if err != nil {
		t.Fatal(err)
	}
	for i, op := range spec.Ops {
		if _, err := applyOp(p, spec.DB, op); err != nil && !(op.Op == "load" && errors.Is(err, os.ErrNotExist)) {
			fmt.Fprintf(ack, "ERR %d %v\n", i, err)
			if spec.Mode == "run-on" {
				continue // an operation that reports its failure: go on with the next one
			}
			os.Exit(3)
		}
		fmt.Fprintf(ack, "ACK %d\n", i)
	}
	os.Exit(0)
}

func errText(err error) string {
	switch {
	case err == nil:
		return ""
	case errors.Is(err, os.ErrNotExist):
		return "not-found"
	}
	return err.Error()
}

func runC14Crash(t *testing.T, sc *world.Scenario) *check.Result {
	res := check.NewResult("c14crash", sc.Seed)
	res.ScHash = scHash(sc)
	r := kernel.NewRand(sc.Seed, "c14crash")
	nSetup := r.Range(0, 4)
	nOps := nSetup + r.Range(1, 3)
	ops := genOps(sc.Seed, nOps, true)
	// make sure the crashing part contains a mutation
	ops[len(ops)-1].Op = kernel.Pick(r, "save", "save", "delete")
	if ops[len(ops)-1].Op == "save" {
		if ops[len(ops)-1].Kind == "curve" {
			ops[len(ops)-1].Data = genData(r)
		} else {
			ops[len(ops)-1].Map = genMap(r)
		}
	}
	res.Sample = fmt.Sprintf("c14crash seed=%d ops=%s", sc.Seed, opsSummary(ops, 8))
	if _, err := exec.LookPath("strace"); err != nil {
		res.Harness = "strace not available"
		return res
	}
	dir, err := os.MkdirTemp(shmBase2(), fmt.Sprintf("verif-c14c-%d-", os.Getpid()))
	if err != nil {
		res.Harness = err.Error()
		return res
	}
	defer os.RemoveAll(dir)
	for _, sys := range []string{"pwrite64", "fdatasync"} {
		for k := 1; k < 400; k++ {
			db := filepath.Join(dir, fmt.Sprintf("%s-%d.db", sys, k))
			ackPath := db + ".ack"
			spec := c14ChildSpec{DB: db, Ack: ackPath, Ops: ops, Mode: "run"}
			specPath := db + ".spec"
			b, _ := json.Marshal(spec)
			_ = os.WriteFile(specPath, b, 0644)
			cmd := exec.Command("strace", "-f", "-o", "/dev/null", "-e", "trace="+sys, "-e", fmt.Sprintf("inject=%s:signal=KILL:when=%d", sys, k),
				os.Args[0], "-test.run", "^TestC14Child$")
			cmd.Env = append(os.Environ(), "VERIF_C14_SPEC="+specPath, "VERIF_JOB=", "VERIF_FAMILY=")
			var stderr bytes.Buffer
			cmd.Stderr = &stderr
			runErr := cmd.Run()
			ackData, _ := os.ReadFile(ackPath)
			acked := strings.Count(string(ackData), "ACK ")
			if strings.Contains(string(ackData), "ERR ") {
				res.Violate("C14", "op-succeeds", "op-succeeds crash-child", k, nil, "operation failed in the worker: %s", strings.TrimSpace(string(ackData)))
				return res
			}
			killed := runErr != nil
			if !killed {
				// the sequence has fewer than k such syscalls: all crash points of this kind are done
				if acked != len(ops) {
					res.Harness = fmt.Sprintf("child ended normally with %d/%d acks: %s", acked, len(ops), tailStr(stderr.String(), 300))
					return res
				}
				res.ProbeN("crash-points:"+sys, k-1)
				_ = os.Remove(db)
				break
			}
			res.Probe("kills")
			// fresh process reads everything back through the real code
			dumpPath := db + ".dump"
			dspec := c14ChildSpec{DB: db, Ack: dumpPath, Mode: "dump"}
			b, _ = json.Marshal(dspec)
			_ = os.WriteFile(specPath, b, 0644)
			dcmd := exec.Command(os.Args[0], "-test.run", "^TestC14Child$")
			dcmd.Env = append(os.Environ(), "VERIF_C14_SPEC="+specPath, "VERIF_JOB=", "VERIF_FAMILY=")
			var dErr bytes.Buffer
			dcmd.Stderr = &dErr
			if err := dcmd.Run(); err != nil {
				res.Violate("C14", "readable-after-kill", "readable-after-kill "+sys, k, nil, "after a kill at %s #%d the database cannot be read back: %v %s", sys, k, err, tailStr(dErr.String(), 300))
				return res
			}
			dump := map[string]struct {
				Data map[int]float64 `json:"data"`
				Map  map[int]int     `json:"map"`
				Err  string          `json:"err"`
			}{}
			dd, _ := os.ReadFile(dumpPath)
			if err := json.Unmarshal(dd, &dump); err != nil {
				res.Harness = "dump: " + err.Error()
				return res
			}
			// model with the acknowledged prefix; the in-flight operation applied or not
			before := c14Model{}
			for _, op := range ops[:acked] {
				before.apply(op)
			}
			after := c14Model{}
			for _, op := range ops[:min(acked+1, len(ops))] {
				after.apply(op)
			}
			matches := func(m c14Model) string {
				for _, kind := range []string{"curve", "map"} {
					for _, id := range c14IDs {
						e := m.get(kind, id)
						got := dump[kind+"|"+id]
						switch {
						case !e.present:
							if got.Err != "not-found" {
								return fmt.Sprintf("%s of %q should be absent, got err=%q data=%v%v", kind, id, got.Err, got.Data, got.Map)
							}
						case got.Err != "":
							return fmt.Sprintf("%s of %q should be present, load failed: %s", kind, id, got.Err)
						case kind == "curve" && !sameData(got.Data, e.data):
							return fmt.Sprintf("curve of %q differs: %v vs %v", id, got.Data, e.data)
						case kind == "map" && !(len(got.Map) == len(e.m) && (len(e.m) == 0 || reflect.DeepEqual(got.Map, e.m))):
							return fmt.Sprintf("map of %q differs: %v vs %v", id, got.Map, e.m)
						}
					}
				}
				return ""
			}
			m1, m2 := matches(before), matches(after)
			if m1 != "" && m2 != "" {
				res.Violate("C14", "atomic-under-kill", "atomic-under-kill "+sys, k, nil,
					"killed at %s #%d after %d acknowledged operations (in flight: %s): the database is neither in the state before (%s) nor after (%s) that operation",
					sys, k, acked, opsSummary(ops[acked:min(acked+1, len(ops))], 1), m1, m2)
				return res
			}
			if m1 == "" && m2 != "" {
				res.Probe("in-flight-op-not-applied")
			} else if m2 == "" && m1 != "" {
				res.Probe("in-flight-op-applied")
			}
			res.Probe("crash-points-judged")
			for _, f := range []string{db, ackPath, specPath, dumpPath} {
				_ = os.Remove(f)
			}
		}
	}
	res.Events = res.Probes["kills"]
	res.Nontrivial = res.Probes["crash-points-judged"] > 0
	res.State(fmt.Sprintf("setup=%d last=%s:%s", nSetup, ops[len(ops)-1].Op, ops[len(ops)-1].Kind))
	return res
}

// c14Dump reads every entry back through the real code in a fresh process.
type c14DumpEntry struct {
	Data map[int]float64 `json:"data"`
	Map  map[int]int     `json:"map"`
	Err  string          `json:"err"`
}

func c14DumpDB(db, specPath, dumpPath string) (map[string]c14DumpEntry, string) {
	dspec := c14ChildSpec{DB: db, Ack: dumpPath, Mode: "dump"}
	b, _ := json.Marshal(dspec)
	_ = os.WriteFile(specPath, b, 0644)
	dcmd := exec.Command(os.Args[0], "-test.run", "^TestC14Child$")
	dcmd.Env = append(os.Environ(), "VERIF_C14_SPEC="+specPath, "VERIF_JOB=", "VERIF_FAMILY=")
	var dErr bytes.Buffer
	dcmd.Stderr = &dErr
	if err := dcmd.Run(); err != nil {
		return nil, fmt.Sprintf("%v %s", err, tailStr(dErr.String(), 300))
	}
	dump := map[string]c14DumpEntry{}
	dd, _ := os.ReadFile(dumpPath)
	if err := json.Unmarshal(dd, &dump); err != nil {
		return nil, "dump: " + err.Error()
	}
	return dump, ""
}

func c14Mismatch(m c14Model, dump map[string]c14DumpEntry) string {
	for _, kind := range []string{"curve", "map"} {
		for _, id := range c14IDs {
			e := m.get(kind, id)
			got := dump[kind+"|"+id]
			switch {
			case !e.present:
				if got.Err != "not-found" {
					return fmt.Sprintf("%s of %q should be absent, got err=%q data=%v%v", kind, id, got.Err, got.Data, got.Map)
				}
			case got.Err != "":
				return fmt.Sprintf("%s of %q should be present, load failed: %s", kind, id, got.Err)
			case kind == "curve" && !sameData(got.Data, e.data):
				return fmt.Sprintf("curve of %q differs: %v vs %v", id, got.Data, e.data)
			case kind == "map" && !(len(got.Map) == len(e.m) && (len(e.m) == 0 || reflect.DeepEqual(got.Map, e.m))):
				return fmt.Sprintf("map of %q differs: %v vs %v", id, got.Map, e.m)
			}
		}
	}
	return ""
}

// c14err: the same operation sequences, but instead of killing the process the k-th write-type system call
// FAILS (ENOSPC on a full disk, EIO from a dying one, EDQUOT) - once, at every position k in turn. The
// operation hit by it may report an error, and then may or may not have taken effect; an operation that
// reports success has taken effect: a fresh process reads back exactly the acknowledged state.
func runC14Err(t *testing.T, sc *world.Scenario) *check.Result {
	res := check.NewResult("c14err", sc.Seed)
	res.ScHash = scHash(sc)
	r := kernel.NewRand(sc.Seed, "c14err")
	ops := genOps(sc.Seed, r.Range(2, 6), true)
	res.Sample = fmt.Sprintf("c14err seed=%d ops=%s", sc.Seed, opsSummary(ops, 8))
	if _, err := exec.LookPath("strace"); err != nil {
		res.Harness = "strace not available"
		return res
	}
	dir, err := os.MkdirTemp(shmBase2(), fmt.Sprintf("verif-c14e-%d-", os.Getpid()))
	if err != nil {
		res.Harness = err.Error()
		return res
	}
	defer os.RemoveAll(dir)
	for _, inj := range []struct{ sys, errno string }{{"pwrite64", "ENOSPC"}, {"pwrite64", "EIO"}, {"fdatasync", "EIO"}, {"ftruncate", "ENOSPC"}} {
		for k := 1; k < 200; k++ {
			db := filepath.Join(dir, fmt.Sprintf("%s-%s-%d.db", inj.sys, inj.errno, k))
			ackPath, specPath, dumpPath := db+".ack", db+".spec", db+".dump"
			b, _ := json.Marshal(c14ChildSpec{DB: db, Ack: ackPath, Ops: ops, Mode: "run-on"})
			_ = os.WriteFile(specPath, b, 0644)
			straceLog := db + ".strace"
			cmd := exec.Command("strace", "-f", "-o", straceLog, "-e", "trace="+inj.sys, "-e", fmt.Sprintf("inject=%s:error=%s:when=%d", inj.sys, inj.errno, k),
				os.Args[0], "-test.run", "^TestC14Child$")
			cmd.Env = append(os.Environ(), "VERIF_C14_SPEC="+specPath, "VERIF_JOB=", "VERIF_FAMILY=")
			var stderr bytes.Buffer
			cmd.Stderr = &stderr
			runErr := cmd.Run()
			logData, _ := os.ReadFile(straceLog)
			injected := strings.Contains(string(logData), "(INJECTED)")
			ackData, _ := os.ReadFile(ackPath)
			if !injected {
				// fewer than k such calls in the whole sequence: this kind is done
				res.ProbeN("error-points:"+inj.sys+"="+inj.errno, k-1)
				break
			}
			res.Probe("injected-errors")
			if runErr != nil && !strings.Contains(string(ackData), fmt.Sprintf(" %d", len(ops)-1)) {
				// the process died (a panic in the persistence layer or below it is as bad as a kill: the data must
				// still be consistent, which the kill family judges; here it is reported as what it is)
				res.Violate("C14", "survives-write-error", "survives-write-error "+inj.sys+"="+inj.errno, k, nil, "the process died when %s #%d failed with %s: %v %s", inj.sys, k, inj.errno, runErr, tailStr(stderr.String(), 300))
				return res
			}
			failed := map[int]bool{}
			for _, line := range strings.Split(string(ackData), "\n") {
				var i int
				if n, _ := fmt.Sscanf(line, "ERR %d", &i); n == 1 {
					failed[i] = true
				}
			}
			if len(failed) > 0 {
				res.Probe("operations-reporting-the-error")
			} else {
				res.Probe("error-absorbed(no operation failed)")
			}
			dump, derr := c14DumpDB(db, specPath, dumpPath)
			if derr != "" {
				res.Violate("C14", "readable-after-write-error", "readable-after-write-error "+inj.sys+"="+inj.errno, k, nil, "after %s #%d failed with %s the database cannot be read back: %s", inj.sys, k, inj.errno, derr)
				return res
			}
			// every operation that reported success took effect; one that reported failure took effect or not
			var failedIdx []int
			for i := range ops {
				if failed[i] {
					failedIdx = append(failedIdx, i)
				}
			}
			ok, why := false, ""
			for mask := 0; mask < 1<<len(failedIdx) && !ok; mask++ {
				m := c14Model{}
				for i, op := range ops {
					apply := !failed[i]
					for bi, fi := range failedIdx {
						if fi == i && mask&(1<<bi) != 0 {
							apply = true
						}
					}
					if apply {
						m.apply(op)
					}
				}
				if w := c14Mismatch(m, dump); w == "" {
					ok = true
				} else if why == "" {
					why = w
				}
			}
			if !ok {
				res.Violate("C14", "acknowledged-is-stored", "acknowledged-is-stored "+inj.sys+"="+inj.errno, k, nil,
					"%s #%d failed with %s; operations reporting failure: %v of %s; a fresh process does not read back the acknowledged state: %s", inj.sys, k, inj.errno, failedIdx, opsSummary(ops, 8), why)
				return res
			}
			res.Probe("error-points-judged")
			for _, f := range []string{db, ackPath, specPath, dumpPath, straceLog} {
				_ = os.Remove(f)
			}
		}
	}
	res.Events = res.Probes["injected-errors"]
	res.Nontrivial = res.Probes["error-points-judged"] > 0
	res.State(fmt.Sprintf("ops=%d", len(ops)))
	return res
}

// ---------------------------------------------------------------------------
// c14sched: several simulated clients (stand-ins for the fan controllers of one
// daemon) issue save/load/delete operations through the real persistence code
// inside one bubble. The seam before every database open lets the seeded
// scheduler interleave them; invoke/return are stamped with the kernel's
// decision sequence numbers and the history is checked for linearizability per
// (kind, fan id) register with porcupine.

func init() {
	register(&Family{Name: "c14sched", Gen: func(seed uint64, tier string) *world.Scenario {
		sc, r := baseScenario("c14sched", seed)
		sc.NoControllers, sc.NoMonitors = true, true
		sc.Horizon = sec(600)
		sc.Params["clients"] = float64(r.Range(2, 4))
		sc.Params["ops"] = float64(r.Range(4, 10))
		return sc
	}, Run: runC14Sched})
}

type regInput struct {
	op   int // 0 save, 1 load, 2 delete
	data string
}
type regOutput struct {
	data  string
	found bool
}

var registerModel = porcupine.Model{
	Init: func() interface{} { return "\x00absent" },
	Step: func(state, input, output interface{}) (bool, interface{}) {
		st := state.(string)
		in := input.(regInput)
		out := output.(regOutput)
		switch in.op {
		case 0:
			return true, in.data
		case 2:
			return true, "\x00absent"
		default:
			if st == "\x00absent" {
				return !out.found, st
			}
			return out.found && out.data == st, st
		}
	},
	DescribeOperation: func(input, output interface{}) string {
		in := input.(regInput)
		out := output.(regOutput)
		switch in.op {
		case 0:
			return "save(" + in.data + ")"
		case 2:
			return "delete"
		}
		if !out.found {
			return "load -> not found"
		}
		return "load -> " + out.data
	},
}

func runC14Sched(t *testing.T, sc *world.Scenario) *check.Result {
	type opRec struct {
		key string
		porcupine.Operation
	}
	var hist []opRec
	return runL1(t, sc, func(st *stage.Stage, res *check.Result) []Oracle {
		st.HarnessDriven = true
		st.OnBooted = func(st *stage.Stage) {
			p := persistence.NewPersistence(st.W.DBPath())
			nClients, nOps := int(sc.Params["clients"]), int(sc.Params["ops"])
			left := nClients
			for c := 0; c < nClients; c++ {
				c := c
				st.K.Go(fmt.Sprintf("client%d", c), func() {
					r := kernel.NewRand(sc.Seed, fmt.Sprintf("c14sched.client%d", c))
					for i := 0; i < nOps; i++ {
						op := pOp{Kind: kernel.Pick(r, "curve", "map"), ID: c14IDs[r.Intn(2)]}
						in := regInput{}
						switch x := r.Intn(10); {
						case x < 5:
							op.Op, in.op = "save", 0
							// unique values so that every read is attributable to one write
							tag := c*1000 + i
							if op.Kind == "curve" {
								op.Data = map[int]float64{tag: float64(tag), 1: float64(r.Range(0, 9))}
							} else {
								op.Map = map[int]int{tag: tag % 256, 1: r.Range(0, 255)}
							}
							b, _ := json.Marshal(map[string]any{"d": op.Data, "m": op.Map})
							in.data = string(b)
						case x < 8:
							op.Op, in.op = "load", 1
						default:
							op.Op, in.op = "delete", 2
						}
						st.K.Step(fmt.Sprintf("client%d.invoke", c))
						call := st.K.Seq()
						result, err := applyOp(p, st.W.DBPath(), op)
						st.K.Step(fmt.Sprintf("client%d.return", c))
						ret := st.K.Seq()
						out := regOutput{}
						if op.Op == "load" {
							switch v := result.(type) {
							case map[int]float64:
								if err == nil {
									b, _ := json.Marshal(map[string]any{"d": v, "m": map[int]int(nil)})
									out = regOutput{string(b), true}
								}
							case map[int]int:
								if err == nil {
									b, _ := json.Marshal(map[string]any{"d": map[int]float64(nil), "m": v})
									out = regOutput{string(b), true}
								}
							}
							if err != nil && !errors.Is(err, os.ErrNotExist) {
								res.Violate("C14", "load-error", "load-error sched", call, nil, "client %d: load of %s/%s failed: %v", c, op.Kind, op.ID, err)
							}
						} else if err != nil {
							res.Violate("C14", op.Op+"-succeeds", op.Op+"-succeeds sched", call, nil, "client %d: %s %s/%s failed: %v", c, op.Op, op.Kind, op.ID, err)
						}
						hist = append(hist, opRec{key: op.Kind + "|" + op.ID, Operation: porcupine.Operation{ClientId: c, Input: in, Call: int64(call), Output: out, Return: int64(ret)}})
						res.Probe("scheduled-ops")
					}
					left--
					if left == 0 {
						st.K.Stop()
					}
				})
			}
		}
		return []Oracle{&c14SchedOracle{hist: func() map[string][]porcupine.Operation {
			m := map[string][]porcupine.Operation{}
			for _, h := range hist {
				m[h.key] = append(m[h.key], h.Operation)
			}
			return m
		}}}
	})
}

type c14SchedOracle struct {
	hist func() map[string][]porcupine.Operation
}

func (o *c14SchedOracle) OnEvent(ev *kernel.Event) {}
func (o *c14SchedOracle) Finish(st *stage.Stage, res *check.Result) {
	total := 0
	for key, ops := range o.hist() {
		total += len(ops)
		r := porcupine.CheckOperationsTimeout(registerModel, ops, 20*time.Second)
		switch r {
		case porcupine.Illegal:
			var desc []string
			for _, op := range ops {
				desc = append(desc, fmt.Sprintf("c%d[%d,%d] %s", op.ClientId, op.Call, op.Return, registerModel.DescribeOperation(op.Input, op.Output)))
			}
			res.Violate("C14", "linearizable", "linearizable "+key[:strings.IndexByte(key, '|')], 0, nil, "history of %s is not linearizable against a per-entry register: %s", key, strings.Join(desc, "; "))
		case porcupine.Unknown:
			res.Probe("linearizability-check-timed-out(inconclusive)")
		default:
			res.Probe("histories-linearizable")
		}
	}
	res.Nontrivial = total > 4
	res.State(fmt.Sprintf("clients=%v", st.Sc.Params["clients"]))
}
