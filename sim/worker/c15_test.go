package worker

import (
	"fmt"
	"strings"
	"testing"
	"time"

	"github.com/markusressel/fan2go/zverif/check"
	"github.com/markusressel/fan2go/zverif/kernel"
	"github.com/markusressel/fan2go/zverif/world"
)

// C15 — stored characterisation is reused; fans are analysed once.
// One run = a history of incarnations of the real program over one world
// directory (only the database survives between incarnations): daemon starts
// (ended by an injected SIGTERM), `fan reset`, `fan init`.

func init() {
	register(&Family{Name: "c15", Gen: genC15, Run: runC15})
}

func genC15(seed uint64, tier string) *world.Scenario {
	sc, r := baseScenario("c15", seed)
	chip := addChip(sc, "simchip")
	sc.FanResponseDelay = 1
	sc.RpmPoll, sc.Tick, sc.TempPoll = ms(1000), ms(500), ms(500)
	sc.ParallelInit = true
	kind := kernel.Pick(r, "hwmon", "hwmon", "hwmon", "file", "cmd")
	_, cid := addSensorCurve(sc, r, 0, "file", constTemp(tempForCurve(r.Range(40, 200))), chip)
	f := world.FanSpec{ID: "f0", Kind: kind, Curve: cid, Chip: chip, Channel: 1, Algo: world.AlgoSpec{Kind: "direct"}}
	f.Plant = world.PlantSpec{MaxRpm: 2200, StartThr: r.Range(0, 40), TauMs: r.Range(50, 300), InitRpm: 500, MinRpm: 150}
	f.Plant.StopThr = f.Plant.StartThr
	f.Driver = world.DriverSpec{InitMode: 2, InitPwm: 96, AutoPwm: 100, Quant: "mult", K: kernel.Pick(r, 16, 32)}
	if kind != "hwmon" {
		f.Driver.NoEnable = true
	}
	if kernel.NewRand(seed, "c15.notach").Bool(0.2) {
		// a fan (or pump) whose tachometer input exists but reads 0 whatever the PWM value (no tach wire, a hub
		// in between): its stored RPM curve holds nothing but zeroes - stored data like any other
		f.Plant.NeverSpin, f.Plant.InitRpm, f.Plant.MinRpm = true, 0, 0
	}
	cfgMap := r.Bool(0.3)
	if cfgMap {
		m := map[int]int{}
		for i := 0; i <= 255; i += f.Driver.K {
			m[i] = i
		}
		m[255] = 255
		if kernel.NewRand(seed, "c15.plateau").Bool(0.4) {
			// a configured map with a plateau (a fan capped below full speed, or one that only knows a few
			// levels): not strictly increasing, and to be used as it is all the same
			for i := 128; i < 255; i += f.Driver.K {
				m[i] = 128
			}
			m[255] = 128
		}
		f.PwmMap = &m
	}
	cfgLimits := kind == "hwmon" && r.Bool(0.35)
	if cfgLimits {
		f.MinPwm, f.MaxPwm = world.IntP(r.Range(0, 60)), world.IntP(r.Range(150, 255))
	}
	sc.Fans = append(sc.Fans, f)
	// history
	ops := []string{"start"}
	n := r.Range(2, 4)
	for i := 0; i < n; i++ {
		ops = append(ops, kernel.Pick(r, "start", "start", "start", "reset", "init"))
	}
	if er := kernel.NewRand(seed, "c15.edit"); er.Bool(0.35) {
		// between two incarnations the user edits the configuration: a pwmMap is added (or replaced);
		// its image is unlike anything a measured map would produce
		at := er.Range(1, len(ops)-1)
		ops = append(ops[:at], append([]string{kernel.Pick(er, "editmap:a", "editmap:b")}, ops[at:]...)...)
	}
	if ops[len(ops)-1] != "start" {
		ops = append(ops, "start")
	}
	sc.Notes = strings.Join(ops, ",")
	sc.Variant = fmt.Sprintf("%s map=%v limits=%v tach-signal=%v", kind, cfgMap, cfgLimits, !f.Plant.NeverSpin)
	sc.Horizon = sec(120)
	return sc
}

func runC15(t *testing.T, sc *world.Scenario) *check.Result {
	res := check.NewResult(sc.Family, sc.Seed)
	res.ScHash = scHash(sc)
	res.Sample = fmt.Sprintf("c15 seed=%d %s history=%s", sc.Seed, sc.Variant, sc.Notes)
	worldDir, outDir := l2Dirs()
	defer l2Cleanup(worldDir)
	f := &sc.Fans[0]
	stored := false // both kinds of data measured and stored by an earlier incarnation, not discarded since
	levels := 256/f.Driver.K + 1
	fixedWaits := 2*time.Second + 2*sc.TempPoll.D() + time.Second
	hr := kernel.NewRand(sc.Seed, "c15.hold")
	holdMs := 0
	for step, op := range strings.Split(sc.Notes, ",") {
		if strings.HasPrefix(op, "editmap:") {
			// a configuration edit between two incarnations: from now on this pwmMap is configured
			top := 6 * f.Driver.K
			if op == "editmap:b" {
				top = 5 * f.Driver.K
			}
			m := map[int]int{0: 0, 128: f.Driver.K, 255: top}
			sc = sc.Clone()
			sc.Fans[0].PwmMap = &m
			f = &sc.Fans[0]
			res.Probe("configuration-edits")
			continue
		}
		isc := sc.Clone()
		var args []string
		switch op {
		case "start":
			// long enough for a complete analysis, then SIGTERM
			isc.Env = []world.EnvEvent{{Kind: "signal", At: sec(float64(levels)*1.1 + 45), Value: 15}}
			isc.Horizon = sec(float64(levels)*1.1 + 110)
			holdMs = 0
			if stored && hr.Bool(0.4) {
				// while this incarnation starts, another process holds the database lock for a few seconds
				holdMs = hr.Range(1500, 20000)
				isc.Env = append(isc.Env, world.EnvEvent{Kind: "db.hold", At: sec(1.2 + hr.Float()*1.6), Value: holdMs})
			}
		case "reset":
			args = []string{"fan", "reset", "--id", f.ID}
			isc.Horizon = sec(30)
		case "init":
			args = []string{"fan", "init", "--id", f.ID}
			isc.Horizon = sec(float64(levels)*1.1 + 110)
		}
		co := runChild(&childSpec{Scenario: isc, WorldDir: worldDir, OutDir: outDir, Args: args}, 240*time.Second)
		accumulate(res, co)
		if stuckViolation(res, "C15", co) {
			return res
		}
		if co.Harness != "" {
			res.Harness = fmt.Sprintf("step %d (%s): %s\n%s", step, op, co.Harness, tailStr(co.Stderr, 1200))
			return res
		}
		if co.PanicMsg != "" {
			res.Violate("C15", "no-crash", "no-crash "+op+" panic at "+co.PanicSite, 0, nil, "step %d (%s) died: %s at %s", step, op, co.PanicMsg, co.PanicSite)
			return res
		}
		res.Probe("incarnations:" + op)
		switch op {
		case "reset":
			if co.ExitCode != 0 {
				res.Harness = fmt.Sprintf("fan reset failed with status %d: %s", co.ExitCode, tailStr(co.Stderr, 400))
				return res
			}
			stored = false
		case "init":
			if co.ExitCode != 0 || !co.hasNote("program-returned") {
				res.Harness = fmt.Sprintf("fan init failed (status %d, end %q): %s", co.ExitCode, co.End, tailStr(co.Stderr, 400))
				return res
			}
			sweep, measure, _ := c15Count(co)
			if f.PwmMap == nil && sweep < 8 {
				res.Violate("C15", "init-analyses-again", "init-analyses-again sweep", 0, nil, "`fan init` (step %d) swept only %d PWM values", step, sweep)
			}
			if f.Kind == "hwmon" && measure < 3 {
				res.Violate("C15", "init-analyses-again", "init-analyses-again measurement", 0, nil, "`fan init` (step %d) measured only %d PWM values", step, measure)
			}
			stored = true
		case "start":
			if co.End == "horizon" {
				res.Harness = fmt.Sprintf("step %d: daemon did not stop after SIGTERM", step)
				return res
			}
			sweep, measure, firstTick := c15Count(co)
			if firstTick == 0 {
				res.Harness = fmt.Sprintf("step %d: no control cycle before the signal (sweep %d, measure %d)", step, sweep, measure)
				return res
			}
			sig := fmt.Sprintf("fan=%s cfgMap=%v cfgLimits=%v", f.Kind, f.PwmMap != nil, f.MinPwm != nil)
			if f.PwmMap != nil {
				res.Probe("judged:configured-map")
				// used as is: every regulating write is a value of the configured map
				img := map[int]bool{}
				for _, v := range *f.PwmMap {
					img[v] = true
				}
				for _, v := range c15RegWrites(co) {
					if !img[v] {
						res.Violate("C15", "configured-map-used-as-is", "configured-map-used-as-is "+sig, 0, nil,
							"step %d (start, history %s): a pwmMap with values %v is configured, yet regulation wrote %d", step, sc.Notes, keysOf(img), v)
						break
					}
					res.Probe("regulating-writes-judged-against-configured-map")
				}
				if sweep > 0 {
					res.Violate("C15", "configured-map-no-sweep", "configured-map-no-sweep "+sig, 0, nil, "step %d (start): a pwmMap is configured, yet %d sweep writes were issued before regulation", step, sweep)
				}
			}
			if stored {
				res.Probe("judged:restart-with-stored-data")
				if sweep >= 8 {
					res.Violate("C15", "stored-map-reused", "stored-map-reused "+sig, 0, nil,
						"step %d (start after %s): the PWM map was measured and stored before, yet the fan was swept again (%d PWM writes) before regulation", step, sc.Notes, sweep)
				}
				if measure >= 3 {
					res.Violate("C15", "stored-curve-reused", "stored-curve-reused "+sig, 0, nil,
						"step %d (start): the RPM curve was measured and stored before, yet %d measurement writes were issued", step, measure)
				}
				if holdMs > 0 {
					res.Probe("restart-while-database-busy")
				}
				if sweep < 8 && measure < 3 && firstTick > fixedWaits+5*time.Second+time.Duration(holdMs)*time.Millisecond {
					res.Violate("C15", "straight-to-regulation", "straight-to-regulation "+sig, 0, nil, "step %d (start): first control cycle only after %s (fixed waits %s)", step, firstTick, fixedWaits)
				}
			} else {
				// nothing stored: the analysis has to happen (guards against vacuous passes)
				if f.PwmMap == nil && sweep < 8 {
					res.Violate("C15", "discarded-data-remeasured", "discarded-data-remeasured sweep "+sig, 0, nil, "step %d (start without stored data): only %d sweep writes", step, sweep)
				}
				if f.Kind == "hwmon" && f.MinPwm != nil && f.MaxPwm != nil {
					res.Probe("judged:configured-min+max")
					if measure >= 3 {
						res.Violate("C15", "configured-limits-no-measurement", "configured-limits-no-measurement "+sig, 0, nil,
							"step %d (first start): minPwm and maxPwm are both configured, yet the RPM curve was measured (%d measurement writes)", step, measure)
					}
				} else if f.Kind == "hwmon" && measure < 3 {
					res.Violate("C15", "discarded-data-remeasured", "discarded-data-remeasured measurement "+sig, 0, nil, "step %d (start without stored data): only %d measurement writes", step, measure)
				}
				res.Probe("analysis-observed")
			}
			stored = true
		}
		res.State(fmt.Sprintf("%s|%s|stored=%v", sc.Variant, op, stored))
	}
	res.Nontrivial = true
	return res
}

// c15Count: PWM writes issued by the sweep, by the RPM-curve measurement, and the time of the first control cycle.
func c15Count(co *childOut) (sweep, measure int, firstTick time.Duration) {
	for _, ev := range co.Events {
		if ev.Kind == "yield" && ev.Site == "ctl.tick" {
			firstTick = ev.T
			break
		}
	}
	// by the shape of the writes, not by the names of the functions that issue them: the sweep is a run of
	// writes milliseconds apart, the measurement writes are at least the fan response delay (1 s) apart
	ph := startupPhases(co.Events, anyPwmWrite, firstTick)
	return ph.Sweep, ph.Measure, firstTick
}

// c15RegWrites: PWM values written by the control loop (from UpdateFanSpeed).
func c15RegWrites(co *childOut) []int {
	var out []int
	for _, ev := range co.Events {
		if ev.Flags&kernel.FUpdate == 0 || ev.Err != "" || ev.Fault != "" {
			continue
		}
		switch {
		case ev.Kind == "write" && !strings.HasSuffix(ev.Site, "_enable"):
			out = append(out, ev.Val)
		case ev.Kind == "yield" && ev.Site == "exec.start" && strings.Contains(ev.ID, "_setpwm") && len(ev.Args) > 0:
			var v int
			if _, err := fmt.Sscanf(ev.Args[0], "%d", &v); err == nil {
				out = append(out, v)
			}
		}
	}
	return out
}
