package worker

import (
	"encoding/json"
	"fmt"
	"strings"
	"testing"
	"time"

	"github.com/markusressel/fan2go/zverif/check"
	"github.com/markusressel/fan2go/zverif/kernel"
	"github.com/markusressel/fan2go/zverif/stage"
	"github.com/markusressel/fan2go/zverif/world"
)

// C16 — with parallel initialisation disabled, fans are analysed one at a time.

func init() {
	register(&Family{Name: "c16", Gen: genC16, Run: runC16})
	register(&Family{Name: "c16load", Gen: genC16Load, Run: runC16Load})
}

func genC16(seed uint64, tier string) *world.Scenario {
	sc, r := baseScenario("c16", seed)
	chip := addChip(sc, "simchip")
	sc.ParallelInit = r.Bool(0.25) // control group: overlap must be observable
	sc.FanResponseDelay = 1
	sc.RpmPoll = ms(1000)
	sc.Tick = ms(500)
	sc.TempPoll = ms(500)
	nf := r.Range(2, 4)
	total := 0.0
	// ids: f0, f1, ... - or ids a user might pick that differ in letter case only, or where one is the
	// beginning of another (distinct ids all the same)
	idOf := func(i int) string { return fmt.Sprintf("f%d", i) }
	switch kernel.NewRand(seed, "c16.ids").Intn(5) {
	case 0:
		idOf = func(i int) string { return []string{"fan", "Fan", "FAN", "fAn"}[i] }
	case 1:
		idOf = func(i int) string { return []string{"cpu", "cpu2", "cpu20", "CPU"}[i] }
	}
	for i := 0; i < nf; i++ {
		_, cid := addSensorCurve(sc, r, i, "file", constTemp(tempForCurve(r.Range(0, 255))), chip)
		f := world.FanSpec{ID: idOf(i), Kind: "hwmon", Curve: cid, Chip: chip, Channel: i + 1, Algo: world.AlgoSpec{Kind: "direct"}}
		f.Plant = world.PlantSpec{MaxRpm: r.Range(800, 3000), StartThr: r.Range(0, 60), TauMs: kernel.Pick(r, 50, 300, 1500, 4000), InitRpm: r.Range(0, 1500)}
		f.Plant.StopThr = f.Plant.StartThr
		f.Driver = world.DriverSpec{InitMode: 2, InitPwm: 0, AutoPwm: 100, Quant: "mult", K: kernel.Pick(r, 16, 32, 51)}
		f.StartDelay = world.Dur(time.Duration(r.Range(0, 3000)) * time.Millisecond)
		// a fan whose PWM map is already known (configured, or left in the database by an
		// interrupted earlier run) still needs its RPM curve measured
		switch r.Intn(7) {
		case 0, 1:
			m := map[int]int{}
			for k := 0; k <= 255; k++ {
				m[k] = world.Quantise(&f.Driver, k)
			}
			f.PwmMap = &m
		case 2:
			m := map[int]int{}
			for k := 0; k <= 255; k++ {
				m[k] = world.Quantise(&f.Driver, k)
			}
			b, _ := json.Marshal(m)
			sc.DB = append(sc.DB, world.DBEntry{Bucket: "fanPwmMap", Key: f.ID, Value: string(b)})
		case 3:
			// the other way round: the RPM curve of an earlier run is stored, the PWM map is not (the earlier run
			// had a pwmMap in its configuration, or could not store the map): only the sweep is left to do
			preseedRpmCurve(sc, f.ID, linearRpmCurve(f.Plant.StartThr, 255, f.Plant.MaxRpm))
		}
		sc.Fans = append(sc.Fans, f)
		total += 1.5 + 14 + float64(256/f.Driver.K+1) + float64(f.Plant.TauMs)/100
	}
	sc.Horizon = sec(total + 15)
	if fr := kernel.NewRand(seed, "c16.faults"); fr.Bool(0.4) {
		// a transient I/O fault inside an analysis (the RPM-curve measurement gives up on a failed PWM
		// write or read; the sweep only warns): whatever the controller does about it, analyses stay serial
		sc.Variant = "analysis-fault"
		n := fr.Range(1, 2)
		for j := 0; j < n; j++ {
			f := sc.Fans[fr.Intn(len(sc.Fans))]
			ft := world.FaultSpec{Target: "fan:" + f.ID + ":pwm", Nth: fr.Range(0, 256/f.Driver.K), Count: kernel.Pick(fr, 1, 1, 2)}
			switch fr.Intn(4) {
			case 0, 1:
				ft.Op, ft.Kind, ft.OnlyFlags = "write", "error", "initseq,!sweep"
			case 2:
				ft.Op, ft.Kind, ft.OnlyFlags = "read", kernel.Pick(fr, "eio", "garbage", "empty"), "initseq,!sweep"
			default:
				ft.Op, ft.Kind, ft.OnlyFlags = "write", "error", "sweep"
				ft.Nth = fr.Range(0, 255)
			}
			sc.Faults = append(sc.Faults, ft)
		}
		sc.Horizon = sec(2*total + 20) // room for whatever repeats
	}
	if tr := kernel.NewRand(seed, "c16.notach"); tr.Bool(0.2) {
		// the tachometer input of one fan disappears after discovery and before its controller starts (the
		// driver stops exposing fanN_input): such a fan is swept but has no RPM curve to measure - and still
		// takes its turn like every other fan
		f := sc.Fans[tr.Intn(len(sc.Fans))]
		sc.Env = append(sc.Env, world.EnvEvent{Kind: "remove", At: ms(300), Path: fmt.Sprintf("@W@/hw/%s/fan%d_input", sc.Chips[f.Chip].Dir, f.Channel)})
		if sc.Variant == "" {
			sc.Variant = "fan-without-tachometer"
		}
	}
	if r.Bool(0.2) {
		// long analyses: full 256-step drivers and a rotor that coasts for a long time before
		// the first measurement (analysis of one fan takes ~5-6 virtual minutes)
		if len(sc.Fans) > 2 {
			sc.Fans = sc.Fans[:2]
			sc.Sensors = sc.Sensors[:2]
			sc.Curves = sc.Curves[:2]
		}
		total = 0
		for i := range sc.Fans {
			f := &sc.Fans[i]
			f.Driver.Quant, f.Driver.K = "", 0
			f.Plant.TauMs = kernel.Pick(r, 300, 12000, 20000)
			f.Plant.InitRpm = r.Range(1500, 3000)
			f.Plant.MaxRpm = 3000
			total += 1.5 + 60 + 257*1.01 + float64(f.Plant.TauMs)/100
		}
		sc.Horizon = sec(total + 40)
		sc.Variant = "long-analysis"
	}
	return sc
}

type c16Oracle struct {
	starting      map[string]bool // controller started, regulation not yet
	windowOnly    int
	st            *stage.Stage
	first         map[string]int
	last          map[string]int
	firstT, lastT map[string]time.Duration
}

func (o *c16Oracle) OnEvent(ev *kernel.Event) {
	if ev.Kind == "yield" {
		switch ev.Site {
		case "ctl.startup":
			o.starting[ev.ID] = true
		case "ctl.delay":
			o.starting[ev.ID] = false
		}
		return
	}
	var fan, role string
	switch ev.Kind {
	case "read", "write":
		if tg := o.st.W.TargetOfPath(ev.Site); tg != nil && tg.Kind == "fan" {
			fan, role = tg.ID, tg.Role
		}
	}
	if fan == "" {
		return
	}
	// an analysis event is I/O on the fan from inside the functions that make up the analysis, or --
	// whatever the functions are called -- a PWM value written to the fan between the start of its
	// controller and the start of its regulation (nothing but the sweep and the RPM-curve measurement
	// sets PWM values then; the hand-back after a failed start is not analysis)
	byName := ev.Flags&(kernel.FPwmMapSweep|kernel.FInitSeq) != 0
	byWindow := o.starting[fan] && ev.Kind == "write" && role == "pwm" && ev.Flags&kernel.FRestore == 0
	if !byName && !byWindow {
		return
	}
	if byWindow && !byName {
		o.windowOnly++
	}
	if _, ok := o.first[fan]; !ok {
		o.first[fan], o.firstT[fan] = ev.Seq, ev.T
	}
	o.last[fan], o.lastT[fan] = ev.Seq, ev.T
}

func (o *c16Oracle) Finish(st *stage.Stage, res *check.Result) {
	ids := st.W.SortedFanIDs()
	analysed := 0
	for _, id := range ids {
		if _, ok := o.first[id]; ok {
			analysed++
		}
	}
	res.ProbeN("fans-analysed", analysed)
	if o.windowOnly > 0 {
		res.Probe("analysis-writes-outside-the-named-functions")
	}
	if analysed < 2 {
		if len(st.Sc.Faults) > 0 || len(st.Sc.Env) > 0 {
			res.Probe("fewer-than-2-analyses(fault)")
			return
		}
		res.Harness = fmt.Sprintf("c16: only %d fans were analysed", analysed)
		return
	}
	overlap := false
	for i := 0; i < len(ids); i++ {
		for j := i + 1; j < len(ids); j++ {
			a, b := ids[i], ids[j]
			if _, ok := o.first[a]; !ok {
				continue
			}
			if _, ok := o.first[b]; !ok {
				continue
			}
			if o.first[a] <= o.last[b] && o.first[b] <= o.last[a] {
				overlap = true
				if !st.Sc.ParallelInit {
					res.Violate("C16", "one-at-a-time", "one-at-a-time", max(o.first[a], o.first[b]), nil,
						"runFanInitializationInParallel=false, yet the analyses of %s (%s..%s) and %s (%s..%s) overlap", a, o.firstT[a], o.lastT[a], b, o.firstT[b], o.lastT[b])
				}
			}
		}
	}
	if st.Sc.ParallelInit {
		res.Probe("parallel-run")
		if overlap {
			res.Probe("overlap-observed-with-option-true")
		}
	} else {
		res.Probe("serial-run")
	}
	res.Nontrivial = true
	res.State(fmt.Sprintf("parallel=%v|fans=%d|overlap=%v", st.Sc.ParallelInit, analysed, overlap))
}

func runC16(t *testing.T, sc *world.Scenario) *check.Result {
	return runL1(t, sc, func(st *stage.Stage, res *check.Result) []Oracle {
		return []Oracle{&c16Oracle{starting: map[string]bool{}, st: st, first: map[string]int{}, last: map[string]int{}, firstT: map[string]time.Duration{}, lastT: map[string]time.Duration{}}}
	})
}

// c16load: the whole program in a process of its own (configuration file -> real loader -> validation -> daemon)
// with the option switched off in the spellings people use for "false" in a YAML document. Whatever the loader
// makes of a spelling -- it may refuse the document, then nothing is analysed -- a daemon that starts with the
// option written as a negative word analyses its fans one at a time.
var c16FalseWords = []string{"false", "False", "FALSE", `"false"`, "f", "0", "off", "Off", "OFF", "no", "No", "n", `"off"`, `"no"`}

func genC16Load(seed uint64, tier string) *world.Scenario {
	sc, r := baseScenario("c16load", seed)
	chip := addChip(sc, "simchip")
	sc.ParallelInit = false
	sc.FalseWord = c16FalseWords[r.Intn(len(c16FalseWords))]
	sc.FanResponseDelay = 1
	sc.RpmPoll = ms(1000)
	sc.Tick = ms(500)
	sc.TempPoll = ms(500)
	nf := r.Range(2, 3)
	total := 0.0
	for i := 0; i < nf; i++ {
		_, cid := addSensorCurve(sc, r, i, "file", constTemp(tempForCurve(r.Range(0, 255))), chip)
		f := world.FanSpec{ID: fmt.Sprintf("f%d", i), Kind: "hwmon", Curve: cid, Chip: chip, Channel: i + 1, Algo: world.AlgoSpec{Kind: "direct"}}
		f.Plant = world.PlantSpec{MaxRpm: r.Range(800, 3000), StartThr: r.Range(0, 60), TauMs: kernel.Pick(r, 50, 300, 1500), InitRpm: r.Range(0, 1500)}
		f.Plant.StopThr = f.Plant.StartThr
		f.Driver = world.DriverSpec{InitMode: 2, InitPwm: 0, AutoPwm: 100, Quant: "mult", K: kernel.Pick(r, 32, 51)}
		sc.Fans = append(sc.Fans, f)
		total += 1.5 + 14 + float64(256/f.Driver.K+1) + float64(f.Plant.TauMs)/100
	}
	sc.Horizon = sec(total + 15)
	sc.Variant = "spelled:" + sc.FalseWord
	return sc
}

func runC16Load(t *testing.T, sc *world.Scenario) *check.Result {
	res := check.NewResult(sc.Family, sc.Seed)
	res.ScHash = scHash(sc)
	res.Sample = fmt.Sprintf("c16load seed=%d fans=%d runFanInitializationInParallel: %s", sc.Seed, len(sc.Fans), sc.FalseWord)
	worldDir, outDir := l2Dirs()
	defer l2Cleanup(worldDir)
	co := runChild(&childSpec{Scenario: sc, WorldDir: worldDir, OutDir: outDir}, 120*time.Second)
	accumulate(res, co)
	if stuckViolation(res, "C16", co) {
		return res
	}
	if co.Harness != "" {
		res.Harness = co.Harness + "\n" + tailStr(co.Stderr, 1500)
		return res
	}
	// the same analysis-event rule as the L1 oracle, on the journal
	starting := map[string]bool{}
	first, last := map[string]int{}, map[string]int{}
	firstT, lastT := map[string]time.Duration{}, map[string]time.Duration{}
	for _, ev := range co.Events {
		if ev.Kind == "yield" {
			switch ev.Site {
			case "ctl.startup":
				starting[ev.ID] = true
			case "ctl.delay":
				starting[ev.ID] = false
			}
			continue
		}
		if ev.Kind != "read" && ev.Kind != "write" {
			continue
		}
		fan := ""
		for i := range sc.Fans {
			if eventOfFan(sc, co, ev, &sc.Fans[i]) {
				fan = sc.Fans[i].ID
			}
		}
		if fan == "" {
			continue
		}
		byName := ev.Flags&(kernel.FPwmMapSweep|kernel.FInitSeq) != 0
		byWindow := starting[fan] && ev.Kind == "write" && !strings.HasSuffix(ev.Site, "_enable") && ev.Flags&kernel.FRestore == 0
		if !byName && !byWindow {
			continue
		}
		if _, ok := first[fan]; !ok {
			first[fan], firstT[fan] = ev.Seq, ev.T
		}
		last[fan], lastT[fan] = ev.Seq, ev.T
	}
	res.Nontrivial = true
	if len(first) == 0 {
		// the loader refused the document (or the daemon gave up before touching a fan)
		res.Probe("document-refused:" + sc.FalseWord)
		res.State("refused|" + sc.FalseWord)
		return res
	}
	res.Probe("daemon-started:" + sc.FalseWord)
	if len(first) < 2 {
		res.Harness = fmt.Sprintf("c16load: only %d fans were analysed\n%s", len(first), tailStr(co.UILog, 800))
		return res
	}
	for i := range sc.Fans {
		for j := i + 1; j < len(sc.Fans); j++ {
			a, b := sc.Fans[i].ID, sc.Fans[j].ID
			_, oka := first[a]
			_, okb := first[b]
			if oka && okb && first[a] <= last[b] && first[b] <= last[a] {
				res.Violate("C16", "one-at-a-time", "one-at-a-time (option spelled "+sc.FalseWord+")", max(first[a], first[b]), nil,
					"the configuration says runFanInitializationInParallel: %s and the daemon started, yet the analyses of %s (%s..%s) and %s (%s..%s) overlap", sc.FalseWord, a, firstT[a], lastT[a], b, firstT[b], lastT[b])
			}
		}
	}
	res.State(fmt.Sprintf("started|%s|fans=%d", sc.FalseWord, len(first)))
	return res
}
