package worker

import (
	"fmt"
	"regexp"
	"sort"
	"strings"
	"testing"
	"time"

	"github.com/markusressel/fan2go/zverif/check"
	"github.com/markusressel/fan2go/zverif/kernel"
	"github.com/markusressel/fan2go/zverif/stage"
	"github.com/markusressel/fan2go/zverif/world"
)

// C17 — hwmon entries bind to the device the user named, or fail cleanly.

func init() {
	register(&Family{Name: "c17", Gen: genC17, Run: runC17})
}

var chipNames = []string{"nct6798", "nct6799", "nct6775", "k10temp", "coretemp", "amdgpu", "it8620", "it8628", "asus", "thinkpad"}

func genC17(seed uint64, tier string) *world.Scenario {
	sc, r := baseScenario("c17", seed)
	sc.Horizon = sec(6)
	sc.Tick, sc.TempPoll, sc.RpmPoll = ms(250), ms(250), ms(500)
	sc.ParallelInit = true
	nchips := r.Range(1, 4)
	// channel numbers up to 7, or (a third of the trees) up to 14: multi-digit fan10.. / temp12..
	maxCh := kernel.Pick(kernel.NewRand(seed, "c17.maxch"), 7, 7, 12, 14)
	usedNames := map[string]bool{}
	for i := 0; i < nchips; i++ {
		name := kernel.Pick(r, chipNames...)
		for usedNames[name] && r.Bool(0.7) {
			name = kernel.Pick(r, chipNames...)
		}
		usedNames[name] = true
		c := world.ChipSpec{Dir: fmt.Sprintf("hwmon%d", i), Name: name, Bus: kernel.Pick(r, 1, 1, 2, 4, 5), BusNr: r.Range(0, 1), Addr: 0x290 + 0x10*i}
		// devices that exist on the chip without being configured
		for ch := 1; ch <= maxCh; ch++ {
			if r.Bool(0.35) {
				c.ExtraFans = append(c.ExtraFans, ch)
			}
			if r.Bool(0.3) {
				c.ExtraTemps = append(c.ExtraTemps, ch)
			}
		}
		// two chips with the same platform string (acpi and virtual names carry no address) cannot be
		// told apart by any pattern; the property speaks of a *named* device, so names are kept distinct
		for _, o := range sc.Chips {
			if stage.PlatformOf(&o) == stage.PlatformOf(&c) {
				c.Bus = 1
			}
		}
		sc.Chips = append(sc.Chips, c)
	}
	platforms := make([]string, nchips)
	for i := range sc.Chips {
		platforms[i] = stage.PlatformOf(&sc.Chips[i])
	}
	// a pattern matching exactly one chip
	pattern := func(chip int) string {
		full := platforms[chip]
		cands := []string{full, sc.Chips[chip].Name, strings.ToUpper(sc.Chips[chip].Name), full[:len(full)-1] + ".", "^" + full + "$", sc.Chips[chip].Name + "-.*"}
		for tries := 0; tries < 6; tries++ {
			p := cands[r.Intn(len(cands))]
			re, err := regexp.Compile("(?i)" + p)
			if err != nil {
				continue
			}
			n := 0
			for _, pl := range platforms {
				if re.MatchString(pl) {
					n++
				}
			}
			if n == 1 && re.MatchString(full) {
				return p
			}
		}
		return "^" + regexp.QuoteMeta(full) + "$"
	}
	// configured sensors (1-2) and fans (1-3); the last entry may name a non-existing device
	ns := r.Range(1, 2)
	for i := 0; i < ns; i++ {
		chip := r.Intn(nchips)
		n := r.Range(1, maxCh)
		guard := 0
		for (containsInt(sc.Chips[chip].ExtraTemps, n) || sensorTaken(sc, chip, n)) && guard < 30 {
			n = n%maxCh + 1
			guard++
		}
		if guard >= 30 {
			// every temperature input of this chip is an unconfigured one: free the chosen slot
			sc.Chips[chip].ExtraTemps = removeInt(sc.Chips[chip].ExtraTemps, n)
		}
		sc.Sensors = append(sc.Sensors, world.SensorSpec{ID: fmt.Sprintf("s%d", i), Kind: "hwmon", Prog: constTemp(30000 + 1000*i + 7000*chip + 100*n), Chip: chip, TempN: n})
	}
	// some of the unconfigured temperature inputs exist but cannot be read (empty attribute)
	if br := kernel.NewRand(seed, "c17.badtemps"); br.Bool(0.35) {
		for ci := range sc.Chips {
			for _, n := range sc.Chips[ci].ExtraTemps {
				if br.Bool(0.5) {
					sc.Chips[ci].BadTemps = append(sc.Chips[ci].BadTemps, n)
				}
			}
		}
	}
	nf := r.Range(1, 3)
	for i := 0; i < nf; i++ {
		chip := r.Intn(nchips)
		ch := r.Range(1, maxCh)
		guard := 0
		for (containsInt(sc.Chips[chip].ExtraFans, ch) || fanTaken(sc, chip, ch)) && guard < 30 {
			ch = ch%maxCh + 1
			guard++
		}
		if guard >= 30 {
			continue
		}
		f := world.FanSpec{ID: fmt.Sprintf("f%d", i), Kind: "hwmon", Curve: "c0", Chip: chip, Channel: ch, Algo: world.AlgoSpec{Kind: "direct"}}
		f.ByIndex = r.Bool(0.5)
		f.Plant = world.PlantSpec{MaxRpm: 2000, StartThr: 10, StopThr: 5, TauMs: 200, InitRpm: 600 + 37*i, MinRpm: 200}
		f.Driver = world.DriverSpec{InitMode: 2, InitPwm: 60 + 10*i + chip, AutoPwm: 100}
		im := identityMap()
		f.PwmMap = &im
		preseedRpmCurve(sc, f.ID, linearRpmCurve(10, 255, 2000))
		sc.Fans = append(sc.Fans, f)
	}
	if len(sc.Fans) == 0 {
		f := world.FanSpec{ID: "f0", Kind: "file", Curve: "c0"}
		f.Plant = world.PlantSpec{NoRpm: true}
		f.Driver = world.DriverSpec{NoEnable: true, InitPwm: 50}
		sc.Fans = append(sc.Fans, f)
	}
	sc.Curves = append(sc.Curves, world.CurveSpec{ID: "c0", Kind: "linear", Sensor: "s0", Min: 20, Max: 80})
	// YAML
	w := &yamlDoc{}
	w.p("dbPath: @W@/db/fan2go.db")
	w.p("tempSensorPollingRate: 250ms\nrpmPollingRate: 500ms\ncontrollerAdjustmentTickRate: 250ms\nrunFanInitializationInParallel: true")
	missing := ""
	if r.Bool(0.3) {
		missing = kernel.Pick(r, "fan-platform", "fan-index", "fan-channel", "sensor-platform", "sensor-index", "fan-platform-malformed", "sensor-platform-malformed")
	}
	// a platform that is no regular expression at all (a shell glob, an unbalanced bracket) names no device either
	malformed := kernel.Pick(kernel.NewRand(seed, "c17.malformed"), "*-isa-0290", "nct67**", "simchip[", "simchip-isa-0290)", "+chip", "chip(?P<n", "[z-a]")
	sc.Params["missing"] = 0
	sc.Notes = missing
	w.p("fans:")
	usedPwm := map[[2]int]bool{}
	for i := range sc.Fans {
		f := &sc.Fans[i]
		w.p("  - id: %s", f.ID)
		if f.Kind == "file" {
			w.p("    file:\n      path: @W@/files/%s.pwm", f.ID)
		} else {
			pat := pattern(f.Chip)
			idx := stage.FanIndex(sc, f.Chip, f.Channel)
			ch := f.Channel
			last := i == len(sc.Fans)-1
			if last && missing == "fan-platform" {
				pat = "nosuchchip"
			}
			if last && missing == "fan-platform-malformed" {
				pat = malformed
			}
			if last && missing == "fan-index" {
				// an index the named chip does not have - preferably one that another chip does have
				idx = 19
				own := len(chipFanChannels(sc, f.Chip))
				for c := range sc.Chips {
					if n := len(chipFanChannels(sc, c)); c != f.Chip && n > own {
						idx = own + 1 + r.Intn(n-own)
					}
				}
				f.ByIndex = true
			}
			if last && missing == "fan-channel" {
				// a channel the named chip does not have - preferably one that another chip does have
				ch = 19
				own := chipFanChannels(sc, f.Chip)
				for c := range sc.Chips {
					for _, oc := range chipFanChannels(sc, c) {
						if c != f.Chip && !containsInt(own, oc) && oc != f.Channel {
							ch = oc
						}
					}
				}
				f.ByIndex = false
			}
			w.p("    hwmon:\n      platform: %q", pat)
			if f.ByIndex {
				w.p("      index: %d", idx)
			} else {
				w.p("      rpmChannel: %d", ch)
			}
			// explicit pwm channel on another (existing) channel of the chip, sometimes
			if r.Bool(0.3) && len(sc.Chips[f.Chip].ExtraFans) > 0 && !(last && strings.HasPrefix(missing, "fan-")) {
				f.PwmChan = sc.Chips[f.Chip].ExtraFans[r.Intn(len(sc.Chips[f.Chip].ExtraFans))]
				if usedPwm[[2]int{f.Chip, f.PwmChan}] {
					f.PwmChan = 0 // two entries driving one output is not what this family is about
				}
			}
			if f.PwmChan != 0 {
				usedPwm[[2]int{f.Chip, f.PwmChan}] = true
				w.p("      pwmChannel: %d", f.PwmChan)
				if kernel.NewRand(seed, "c17.noenable."+f.ID).Bool(0.3) {
					f.Driver.NoEnable = true // that output has no enable attribute (the fan's own channel has one)
				}
			}
		}
		w.p("    curve: c0\n    controlAlgorithm: direct")
		w.p("    pwmMap:")
		for k := 0; k <= 255; k++ {
			w.p("      %d: %d", k, k)
		}
	}
	w.p("sensors:")
	for i := range sc.Sensors {
		s := &sc.Sensors[i]
		pat := pattern(s.Chip)
		idx := stage.TempIndex(sc, s.Chip, s.TempN)
		last := i == len(sc.Sensors)-1
		if last && missing == "sensor-platform" {
			pat = "nosuchchip"
		}
		if last && missing == "sensor-platform-malformed" {
			pat = malformed
		}
		if last && missing == "sensor-index" {
			idx = 23
			own := len(chipTempInputs(sc, s.Chip))
			for c := range sc.Chips {
				if n := len(chipTempInputs(sc, c)); c != s.Chip && n > own {
					idx = own + 1 + r.Intn(n-own)
				}
			}
		}
		w.p("  - id: %s\n    hwmon:\n      platform: %q\n      index: %d", s.ID, pat, idx)
	}
	w.p("curves:\n  - id: c0\n    linear:\n      sensor: s0\n      min: 20\n      max: 80")
	sc.RawYAML = w.b.String()
	if missing != "" && ((strings.HasPrefix(missing, "fan-") && sc.Fans[len(sc.Fans)-1].Kind != "hwmon") || false) {
		sc.Notes = ""
	}
	return sc
}

type yamlDoc struct{ b strings.Builder }

func (y *yamlDoc) p(format string, a ...any) { fmt.Fprintf(&y.b, format+"\n", a...) }

func containsInt(a []int, x int) bool {
	for _, v := range a {
		if v == x {
			return true
		}
	}
	return false
}

func sensorTaken(sc *world.Scenario, chip, n int) bool {
	for _, s := range sc.Sensors {
		if s.Chip == chip && s.TempN == n {
			return true
		}
	}
	return false
}

func fanTaken(sc *world.Scenario, chip, ch int) bool {
	for _, f := range sc.Fans {
		if f.Kind == "hwmon" && f.Chip == chip && (f.Channel == ch || f.PwmChan == ch) {
			return true
		}
	}
	return false
}

// observedBinding groups the paths touched by each fan's and sensor's own goroutines.
func observedBinding(co *childOut) map[string]map[string]bool {
	owner := map[uint64]string{} // goroutine → "fan:<id>" / "sensor:<id>"
	out := map[string]map[string]bool{}
	rel := func(p string) string { return strings.TrimPrefix(p, co.WorldDir+"/") }
	for _, ev := range co.Events {
		if ev.Kind == "yield" {
			switch ev.Site {
			case "ctl.tick", "ctl.cycle.end", "ctl.delay", "ctl.startup", "rpm.tick":
				owner[ev.G] = "fan:" + ev.ID
			case "mon.tick":
				owner[ev.G] = "sensor:" + ev.ID
			}
			continue
		}
		if ev.Kind != "read" && ev.Kind != "write" {
			continue
		}
		o := owner[ev.G]
		if o == "" {
			continue
		}
		if out[o] == nil {
			out[o] = map[string]bool{}
		}
		out[o][ev.Kind+" "+rel(ev.Site)] = true
	}
	return out
}

func runC17(t *testing.T, sc *world.Scenario) *check.Result {
	res := check.NewResult(sc.Family, sc.Seed)
	res.ScHash = scHash(sc)
	missing := sc.Notes
	res.Sample = fmt.Sprintf("c17 seed=%d chips=%d fans=%d sensors=%d missing=%q", sc.Seed, len(sc.Chips), len(sc.Fans), len(sc.Sensors), missing)
	// reference binding
	want := map[string][]string{}
	for _, f := range sc.Fans {
		if f.Kind != "hwmon" {
			continue
		}
		pc := f.PwmChan
		if pc == 0 {
			pc = f.Channel
		}
		d := "hw/" + sc.Chips[f.Chip].Dir
		want["fan:"+f.ID] = []string{
			fmt.Sprintf("read %s/fan%d_input", d, f.Channel),
			fmt.Sprintf("read %s/pwm%d", d, pc),
		}
		if !f.Driver.NoEnable {
			want["fan:"+f.ID] = append(want["fan:"+f.ID], fmt.Sprintf("write %s/pwm%d_enable", d, pc))
		}
	}
	for _, s := range sc.Sensors {
		want["sensor:"+s.ID] = []string{fmt.Sprintf("read hw/%s/temp%d_input", sc.Chips[s.Chip].Dir, s.TempN)}
	}
	var first map[string]map[string]bool
	orders := 3
	for k := 0; k < orders; k++ {
		isc := sc.Clone()
		isc.Seed = sc.Seed + uint64(k)*7919 // another enumeration order (and schedule)
		worldDir, outDir := l2Dirs()
		co := runChild(&childSpec{Scenario: isc, WorldDir: worldDir, OutDir: outDir}, 90*time.Second)
		accumulate(res, co)
		if stuckViolation(res, "C17", co) {
			l2Cleanup(worldDir)
			return res
		}
		if co.Harness != "" {
			res.Harness = co.Harness + "\n" + tailStr(co.Stderr, 1200)
			l2Cleanup(worldDir)
			return res
		}
		res.Probe("enumeration-orders-run")
		if missing != "" {
			res.Probe("missing-device-documents")
			res.Probe("missing-device:" + missing)
			judgeMissing(res, sc, co, missing)
			l2Cleanup(worldDir)
			if len(res.Violations) > 0 {
				break
			}
			continue
		}
		if co.PanicMsg != "" || co.End != "horizon" {
			res.Violate("C17", "binds-and-runs", "binds-and-runs "+panicOrExit(co), 0, nil, "every entry names an existing device, yet the daemon did not run: %s %s (exit %d)", co.PanicMsg, co.PanicSite, co.ExitCode)
			l2Cleanup(worldDir)
			break
		}
		got := observedBinding(co)
		for ent, paths := range want {
			for _, p := range paths {
				// the entry is bound to the named device if its goroutines touch the device's file at all:
				// whether fan2go reads a file before writing it (or instead of writing it) is its own business
				file := p[strings.IndexByte(p, ' ')+1:]
				if !got[ent]["read "+file] && !got[ent]["write "+file] {
					res.Violate("C17", "bound-to-named-device", "bound-to-named-device "+entKind(ent)+" "+pathRole(p), 0, nil,
						"%s: expected I/O %q was not observed; observed %v (enumeration order #%d)", ent, p, keysOfStr(got[ent]), k)
				}
			}
			// nothing of another chip / channel
			for p := range got[ent] {
				if strings.HasPrefix(ent, "fan:") && !fanPathAllowed(paths, p) {
					res.Violate("C17", "no-other-device", "no-other-device "+entKind(ent), 0, nil, "%s touched %q, which is not one of its device's files %v", ent, p, paths)
				}
				if strings.HasPrefix(ent, "sensor:") && p != paths[0] {
					res.Violate("C17", "no-other-device", "no-other-device "+entKind(ent), 0, nil, "%s touched %q instead of %q", ent, p, paths[0])
				}
			}
			res.Probe("bindings-judged")
		}
		if first == nil {
			first = got
		} else if fmt.Sprint(flatten(first)) != fmt.Sprint(flatten(got)) {
			res.Violate("C17", "order-independent", "order-independent", 0, nil, "bindings differ between enumeration orders: %v vs %v", flatten(first), flatten(got))
		}
		l2Cleanup(worldDir)
		if len(res.Violations) > 0 {
			break
		}
	}
	res.Nontrivial = res.Probes["bindings-judged"] > 0 || res.Probes["missing-device-documents"] > 0
	res.State(fmt.Sprintf("chips=%d|missing=%s", len(sc.Chips), missing))
	return res
}

func panicOrExit(co *childOut) string {
	if co.PanicMsg != "" {
		return "panic at " + co.PanicSite
	}
	return fmt.Sprintf("exit=%d end=%s", co.ExitCode, co.End)
}

func entKind(e string) string { return e[:strings.IndexByte(e, ':')] }

func pathRole(p string) string {
	switch {
	case strings.HasSuffix(p, "_input") && strings.Contains(p, "/fan"):
		return "rpm"
	case strings.HasSuffix(p, "_enable"):
		return "enable"
	case strings.Contains(p, "/pwm"):
		return "pwm"
	}
	return "temp"
}

func fanPathAllowed(want []string, p string) bool {
	// the same three files, read or written
	f := p[strings.IndexByte(p, ' ')+1:]
	for _, w := range want {
		if w[strings.IndexByte(w, ' ')+1:] == f {
			return true
		}
	}
	return false
}

func keysOfStr(m map[string]bool) []string {
	var ks []string
	for k := range m {
		ks = append(ks, k)
	}
	sort.Strings(ks)
	return ks
}

// flatten lists (entry, file) pairs; whether a file was read or written is a
// matter of schedule and timing, not of binding.
func flatten(m map[string]map[string]bool) []string {
	set := map[string]bool{}
	for e, ps := range m {
		for p := range ps {
			set[e+" "+p[strings.IndexByte(p, ' ')+1:]] = true
		}
	}
	var out []string
	for k := range set {
		out = append(out, k)
	}
	sort.Strings(out)
	return out
}

// judgeMissing: an entry names a device that does not exist: start-up must fail
// with an error naming the entry, without a crash and without touching a device.
func judgeMissing(res *check.Result, sc *world.Scenario, co *childOut, missing string) {
	entry := sc.Fans[len(sc.Fans)-1].ID
	if strings.HasPrefix(missing, "sensor-") {
		entry = sc.Sensors[len(sc.Sensors)-1].ID
	}
	writes := 0
	for _, ev := range co.Events {
		if ev.Kind == "write" {
			writes++
		}
	}
	switch {
	case co.End == "horizon":
		res.Violate("C17", "missing-device-fails", "missing-device-fails runs-anyway "+missing, 0, nil,
			"entry %s names a device that does not exist (%s), yet the daemon started and ran (%d writes): it bound something else", entry, missing, writes)
	case strings.Contains(co.PanicMsg, "runtime error") || strings.Contains(co.PanicMsg, "fatal error"):
		res.Violate("C17", "missing-device-clean-error", "missing-device-clean-error crash "+missing+" at "+co.PanicSite, 0, nil,
			"entry %s names a device that does not exist (%s): the daemon crashed: %s (at %s)", entry, missing, co.PanicMsg, co.PanicSite)
	default:
		// an error exit: it has to name the entry
		text := co.PanicMsg + " " + co.Stderr + " " + co.UILog
		if !strings.Contains(text, entry) {
			res.Violate("C17", "missing-device-names-entry", "missing-device-names-entry "+missing, 0, nil,
				"entry %s names a device that does not exist (%s): start-up failed, but the message does not name the entry: %s", entry, missing, tailStr(strings.TrimSpace(co.UILog), 300))
		}
		res.Probe("missing-device-clean-failure")
	}
	if writes > 0 && co.End != "horizon" {
		res.Violate("C17", "missing-device-touches-nothing", "missing-device-touches-nothing "+missing, 0, nil, "start-up failed for entry %s, but %d writes to devices had been issued", entry, writes)
	}
}

func removeInt(xs []int, v int) []int {
	out := xs[:0:0]
	for _, x := range xs {
		if x != v {
			out = append(out, x)
		}
	}
	return out
}

// chipFanChannels / chipTempInputs: the channels that exist on a chip (configured and unconfigured ones).
func chipFanChannels(sc *world.Scenario, chip int) []int {
	out := append([]int{}, sc.Chips[chip].ExtraFans...)
	for _, f := range sc.Fans {
		if f.Kind == "hwmon" && f.Chip == chip && !containsInt(out, f.Channel) {
			out = append(out, f.Channel)
		}
	}
	sortInts(out)
	return out
}

func chipTempInputs(sc *world.Scenario, chip int) []int {
	out := append([]int{}, sc.Chips[chip].ExtraTemps...)
	for _, s := range sc.Sensors {
		if s.Kind == "hwmon" && s.Chip == chip && !containsInt(out, s.TempN) {
			out = append(out, s.TempN)
		}
	}
	sortInts(out)
	return out
}
