package worker

import (
	"fmt"
	"os"
	"path/filepath"
	"strings"
	"syscall"
	"testing"
	"time"

	"github.com/markusressel/fan2go/internal/configuration"
	"github.com/markusressel/fan2go/internal/fans"
	"github.com/markusressel/fan2go/internal/sensors"
	"github.com/markusressel/fan2go/zverif/check"
	"github.com/markusressel/fan2go/zverif/kernel"
	"github.com/markusressel/fan2go/zverif/stage"
	"github.com/markusressel/fan2go/zverif/world"
)

// C18 — only root-controlled executables are ever run.
// c18walk: the real cmd sensor / cmd fan / configuration validation are called
// while the harness (running as root) walks the executable through owner x
// group x mode x {direct path, symlink}; every call's side-effect marker is
// compared with the reference predicate on the attributes in force at that call.
// c18loop: the same oracle on the exec events of a running closed loop whose
// scripts' attributes are flipped by environment events between executions.

func init() {
	register(&Family{Name: "c18walk", Gen: genC18Walk, Run: runC18Walk})
	register(&Family{Name: "c18cfg", Gen: genC18Cfg, Run: runC18Cfg})
	register(&Family{Name: "c18loop", Gen: genC18Loop, Run: runC18Loop})
}

const otherID = 54321

func genC18Walk(seed uint64, tier string) *world.Scenario {
	sc := &world.Scenario{Family: "c18walk", Seed: seed, Params: map[string]float64{}}
	// quick: a seeded sample of the attribute space; thorough: block index of the complete walk
	sc.Params["points"] = 256
	if tier == "thorough" {
		sc.Params["block"] = float64(seed % 16) // 16 blocks x 256 points = 2 x 2 x 512 x 2
		sc.Params["complete"] = 1
	}
	return sc
}

type attrPoint struct {
	uid, gid int
	mode     os.FileMode
	symlink  bool
}

func allPoints() []attrPoint {
	var out []attrPoint
	for _, link := range []bool{false, true} {
		for _, uid := range []int{0, otherID} {
			for _, gid := range []int{0, otherID} {
				for m := 0; m < 512; m++ {
					out = append(out, attrPoint{uid, gid, os.FileMode(m), link})
				}
			}
		}
	}
	return out
}

// refAllowed is the reference predicate of the property.
func refAllowed(p attrPoint) bool {
	if p.uid != 0 {
		return false
	}
	if p.gid != 0 && p.mode&0o020 != 0 {
		return false
	}
	return p.mode&0o002 == 0
}

func markerLines(path string) int {
	b, err := os.ReadFile(path)
	if err != nil {
		return 0
	}
	return strings.Count(string(b), "\n")
}

func runC18Walk(t *testing.T, sc *world.Scenario) *check.Result {
	res := check.NewResult(sc.Family, sc.Seed)
	res.ScHash = scHash(sc)
	if os.Geteuid() != 0 {
		res.Harness = "c18 needs root (chown)"
		return res
	}
	dir, err := os.MkdirTemp(shmBase2(), fmt.Sprintf("verif-c18-%d-", os.Getpid()))
	if err != nil {
		res.Harness = err.Error()
		return res
	}
	defer os.RemoveAll(dir)
	_ = os.Chmod(dir, 0755)
	script := filepath.Join(dir, "probe.sh")
	link := filepath.Join(dir, "probe-link.sh")
	marker := filepath.Join(dir, "marker")
	valueFile := filepath.Join(dir, "value")
	_ = os.WriteFile(valueFile, []byte("41000\n"), 0644)
	_ = os.WriteFile(script, []byte("#!/bin/sh\necho . >> "+marker+"\ncat "+valueFile+"\n"), 0755)
	_ = os.Symlink(script, link)
	// the same file under a relative name with a directory part (a hard link: one inode, one set of
	// attributes), with the harness's working directory in dir; and below that directory a file of the same
	// relative name that is anybody's - which nothing may ever run
	_ = os.MkdirAll(filepath.Join(dir, "rel", "rel"), 0755)
	relName := "rel/probe.sh"
	decoyMarker := filepath.Join(dir, "decoy-marker")
	if err := os.Link(script, filepath.Join(dir, relName)); err != nil {
		res.Harness = "link: " + err.Error()
		return res
	}
	decoy := filepath.Join(dir, "rel", relName)
	_ = os.WriteFile(decoy, []byte("#!/bin/sh\necho . >> "+decoyMarker+"\necho 99\n"), 0777)
	_ = os.Chown(decoy, otherID, otherID)
	_ = os.Chmod(decoy, 0777)
	if err := os.Chdir(dir); err != nil {
		res.Harness = "chdir: " + err.Error()
		return res
	}
	defer func() { _ = os.Chdir("/") }()
	cfgFile := filepath.Join(dir, "fan2go.yaml")
	cfgLink := filepath.Join(dir, "fan2go-link.yaml")
	_ = os.WriteFile(cfgFile, []byte("# placeholder\n"), 0644)
	_ = os.Symlink(cfgFile, cfgLink)

	points := allPoints()
	r := kernel.NewRand(sc.Seed, "c18walk")
	var todo []attrPoint
	if sc.Params["complete"] == 1 {
		b := int(sc.Params["block"])
		todo = append(todo, points[b*256:(b+1)*256]...)
		// visit the block in a seeded order so that consecutive calls see unrelated attributes
		for i := len(todo) - 1; i > 0; i-- {
			j := r.Intn(i + 1)
			todo[i], todo[j] = todo[j], todo[i]
		}
	} else {
		for i := 0; i < int(sc.Params["points"]); i++ {
			todo = append(todo, points[r.Intn(len(points))])
		}
	}
	res.Sample = fmt.Sprintf("c18walk seed=%d points=%d complete=%v first=%+v", sc.Seed, len(todo), sc.Params["complete"] == 1, todo[0])
	for i, p := range todo {
		if err := os.Chown(script, p.uid, p.gid); err != nil {
			res.Harness = "chown: " + err.Error()
			return res
		}
		_ = os.Chmod(script, p.mode)
		_ = os.Chown(cfgFile, p.uid, p.gid)
		_ = os.Chmod(cfgFile, p.mode)
		path, cpath := script, cfgFile
		if p.symlink {
			path, cpath = link, cfgLink
		} else if kernel.NewRand(sc.Seed, fmt.Sprintf("c18walk.rel.%d", i)).Bool(0.25) {
			path = relName // exec: rel/probe.sh, relative to the working directory
			res.Probe("relative-exec-paths")
		}
		allowed := refAllowed(p)
		runnable := p.mode&0o111 != 0
		sig := fmt.Sprintf("owner=%s group=%s gw=%v ow=%v link=%v", rootOr(p.uid), rootOr(p.gid), p.mode&0o020 != 0, p.mode&0o002 != 0, p.symlink)
		// three call sites: cmd sensor, cmd fan (set), configuration file rule
		which := i % 3
		before := markerLines(marker)
		var callErr error
		switch which {
		case 0:
			s, _ := sensors.NewSensor(configuration.SensorConfig{ID: "probe", Cmd: &configuration.CmdSensorConfig{Exec: path, Args: []string{}}})
			_, callErr = s.GetValue()
		case 1:
			f, _ := fans.NewFan(configuration.FanConfig{ID: "probe", Cmd: &configuration.CmdFanConfig{
				SetPwm: &configuration.ExecConfig{Exec: path, Args: []string{"%pwm%"}}, GetPwm: &configuration.ExecConfig{Exec: path, Args: []string{}}}})
			callErr = f.SetPwm(99)
		case 2:
			// what the configuration declares: a cmd sensor a curve uses; a cmd sensor no curve uses (it is
			// created, polled and exported all the same); a cmd fan
			cmdSensor := configuration.SensorConfig{ID: "s", Cmd: &configuration.CmdSensorConfig{Exec: "/bin/true"}}
			fileSensor := configuration.SensorConfig{ID: "t", File: &configuration.FileSensorConfig{Path: valueFile}}
			switch (i / 3) % 3 {
			case 0:
				configuration.CurrentConfig = configuration.Configuration{
					Sensors: []configuration.SensorConfig{cmdSensor},
					Curves:  []configuration.CurveConfig{{ID: "c", Linear: &configuration.LinearCurveConfig{Sensor: "s", Min: 1, Max: 2}}},
				}
				res.Probe("config-declares:cmd-sensor-in-use")
			case 1:
				configuration.CurrentConfig = configuration.Configuration{
					Sensors: []configuration.SensorConfig{fileSensor, cmdSensor},
					Curves:  []configuration.CurveConfig{{ID: "c", Linear: &configuration.LinearCurveConfig{Sensor: "t", Min: 1, Max: 2}}},
				}
				res.Probe("config-declares:cmd-sensor-unused")
			default:
				configuration.CurrentConfig = configuration.Configuration{
					Sensors: []configuration.SensorConfig{fileSensor},
					Curves:  []configuration.CurveConfig{{ID: "c", Linear: &configuration.LinearCurveConfig{Sensor: "t", Min: 1, Max: 2}}},
					Fans: []configuration.FanConfig{{ID: "f", Curve: "c", ControlAlgorithm: &configuration.ControlAlgorithmConfig{Direct: &configuration.DirectControlAlgorithmConfig{}},
						Cmd: &configuration.CmdFanConfig{SetPwm: &configuration.ExecConfig{Exec: "/bin/true", Args: []string{"%pwm%"}}, GetPwm: &configuration.ExecConfig{Exec: "/bin/true"}}}},
				}
				res.Probe("config-declares:cmd-fan")
			}
			callErr = configuration.Validate(cpath)
			res.Probe("config-file-rule-judged")
			if allowed && callErr != nil {
				res.Violate("C18", "config-file-accepted", "config-file-accepted "+sig, i, nil, "configuration file with %+v was rejected: %v", p, callErr)
			}
			if !allowed && callErr == nil {
				res.Violate("C18", "config-file-rejected", "config-file-rejected "+sig, i, nil, "configuration file declaring a cmd sensor with %+v was accepted", p)
			}
			continue
		}
		after := markerLines(marker)
		ran := after > before
		res.Probe("executions-judged")
		if markerLines(decoyMarker) > 0 {
			res.Violate("C18", "rejected-not-executed", "rejected-not-executed another-file path="+path, i, nil, "exec %q (checked file: %+v): a file that belongs to uid %d with mode 0777 was executed", path, p, otherID)
			return res
		}
		switch {
		case !allowed && ran:
			res.Violate("C18", "rejected-not-executed", "rejected-not-executed "+sig, i, nil, "executable with %+v (mode %o) must be rejected, but it was executed (marker grew %d → %d, call error %v)", p, p.mode, before, after, callErr)
		case !allowed && callErr == nil:
			res.Violate("C18", "rejected-returns-error", "rejected-returns-error "+sig, i, nil, "executable with %+v (mode %o) must be rejected, but the call returned no error", p, p.mode)
		case allowed && runnable && !ran:
			res.Violate("C18", "allowed-executed", "allowed-executed "+sig, i, nil, "root-controlled executable %+v (mode %o) was not executed: %v", p, p.mode, callErr)
		case allowed && !runnable && ran:
			res.Harness = "marker grew although the file has no execute bit"
			return res
		}
		if allowed {
			res.Probe("allowed-points")
		} else {
			res.Probe("rejected-points")
		}
	}
	res.Events = len(todo)
	res.Nontrivial = true
	res.State(fmt.Sprintf("block=%v", sc.Params["block"]))
	return res
}

func rootOr(id int) string {
	if id == 0 {
		return "root"
	}
	return "other"
}

// ---------------------------------------------------------------------------

// c18cfg: the real `fan2go config validate` in its own process, with the configuration file reached directly,
// through a symbolic link, or through a path with ".." behind a symbolic link to a directory (so that the
// file loaded is not the file at the lexically cleaned path), and the LOADED file's owner / group / mode
// drawn from the attribute points: a configuration declaring a command sensor is accepted exactly when the
// file that was loaded is root-controlled.
func genC18Cfg(seed uint64, tier string) *world.Scenario {
	sc, r := baseScenario("c18cfg", seed)
	chip := addChip(sc, "simchip")
	sc.Horizon = sec(5)
	sc.Sensors = append(sc.Sensors, world.SensorSpec{ID: "s0", Kind: "cmd", Prog: constTemp(41000), Chip: chip})
	sc.Curves = append(sc.Curves, world.CurveSpec{ID: "c0", Kind: "linear", Sensor: "s0", Min: 20, Max: 80})
	f := world.FanSpec{ID: "f0", Kind: "file", Curve: "c0", Algo: world.AlgoSpec{Kind: "direct"}}
	f.Plant = world.PlantSpec{NoRpm: true}
	f.Driver = world.DriverSpec{NoEnable: true, InitPwm: 60}
	im := identityMap()
	f.PwmMap = &im
	sc.Fans = append(sc.Fans, f)
	pts := allPoints()
	want := r.Intn(3) == 0 // one third root-controlled files, two thirds not (among all points they are rare)
	p := pts[r.Intn(len(pts))]
	for refAllowed(p) != want {
		p = pts[r.Intn(len(pts))]
	}
	sc.Params["uid"], sc.Params["gid"], sc.Params["mode"] = float64(p.uid), float64(p.gid), float64(p.mode)
	sc.Variant = kernel.Pick(r, "direct", "symlink", "dotdot", "dotdot", "relative", "cwd")
	if ur := kernel.NewRand(seed, "c18cfg.user"); ur.Bool(0.3) {
		// fan2go itself runs as an ordinary user (a service account, somebody trying `fan2go config validate`):
		// whose files are acceptable does not depend on who asks
		sc.Params["asUser"] = 1
		if ur.Bool(0.6) {
			// the file belongs to that very user and nobody else may write it: as tidy as a file can be without
			// being root's
			sc.Params["uid"], sc.Params["gid"] = float64(otherID), float64(kernel.Pick(ur, 0, otherID))
			sc.Params["mode"] = float64(kernel.Pick(ur, 0o644, 0o604, 0o600, 0o744, 0o755, 0o640))
		}
		sc.Params["mode"] = float64(int(sc.Params["mode"]) | 0o004) // that user must be able to read the file at all
	}
	return sc
}

func runC18Cfg(t *testing.T, sc *world.Scenario) *check.Result {
	res := check.NewResult(sc.Family, sc.Seed)
	res.ScHash = scHash(sc)
	if os.Geteuid() != 0 {
		res.Harness = "c18 needs root (chown)"
		return res
	}
	p := attrPoint{uid: int(sc.Params["uid"]), gid: int(sc.Params["gid"]), mode: os.FileMode(int(sc.Params["mode"]))}
	res.Sample = fmt.Sprintf("c18cfg seed=%d layout=%s attr=%+v", sc.Seed, sc.Variant, p)
	worldDir, outDir := l2Dirs()
	defer l2Cleanup(worldDir)
	layout := sc.Variant
	if layout == "direct" {
		layout = ""
	}
	asUser := sc.Params["asUser"] == 1
	cs := &childSpec{Scenario: sc, WorldDir: worldDir, OutDir: outDir, Args: []string{"config", "validate"},
		CfgLayout: layout, CfgUID: p.uid, CfgGID: p.gid, CfgMode: uint32(p.mode) | 0o400}
	if asUser {
		cs.DropToUID = otherID
	}
	co := runChild(cs, 60*time.Second)
	accumulate(res, co)
	if stuckViolation(res, "C18", co) {
		return res
	}
	if co.Harness != "" {
		res.Harness = co.Harness + "\n" + tailStr(co.Stderr, 800)
		return res
	}
	p.mode |= 0o400
	accepted := co.ExitCode == 0 && co.hasNote("program-returned") && co.PanicMsg == ""
	allowed := refAllowed(p)
	sig := fmt.Sprintf("layout=%s owner=%s group=%s gw=%v ow=%v", sc.Variant, rootOr(p.uid), rootOr(p.gid), p.mode&0o020 != 0, p.mode&0o002 != 0)
	res.Probe(fmt.Sprintf("config-validate-runs:%s:file-root-controlled=%v", sc.Variant, allowed))
	if asUser {
		if !co.hasNote("running-as uid=54321") {
			res.Harness = "c18cfg: the child did not drop its privileges\n" + tailStr(co.Stderr, 400)
			return res
		}
		res.Probe(fmt.Sprintf("config-validate-as-ordinary-user:file-owned-by-that-user=%v", p.uid == otherID))
		sig += " caller=ordinary-user"
	}
	switch {
	case accepted && !allowed:
		res.Violate("C18", "config-file-rejected", "config-file-rejected "+sig, 0, nil,
			"`fan2go config validate` accepted a configuration declaring a cmd sensor although the file it loaded has %+v (mode %o); layout %s", p, p.mode, sc.Variant)
	case !accepted && allowed && !asUser: // (an ordinary user may fail for other reasons: it cannot open the database, ...)
		res.Violate("C18", "config-file-accepted", "config-file-accepted "+sig, 0, nil,
			"`fan2go config validate` rejected a root-controlled configuration file (%+v, mode %o; layout %s): exit %d %s", p, p.mode, sc.Variant, co.ExitCode, tailStr(co.Stderr, 300))
	}
	res.Nontrivial = true
	res.State(fmt.Sprintf("%s|allowed=%v", sc.Variant, allowed))
	return res
}

func genC18Loop(seed uint64, tier string) *world.Scenario {
	sc, r := baseScenario("c18loop", seed)
	chip := addChip(sc, "simchip")
	sc.Horizon = sec(10)
	sc.Tick, sc.TempPoll, sc.RpmPoll = ms(250), ms(250), ms(500)
	sc.Sensors = append(sc.Sensors, world.SensorSpec{ID: "s0", Kind: "cmd", Prog: world.TempProg{Kind: "ramp", Base: 30000, Delta: 700, Every: ms(300), Lo: 0, Hi: 90000}, Chip: chip})
	sc.Curves = append(sc.Curves, world.CurveSpec{ID: "c0", Kind: "linear", Sensor: "s0", Min: 20, Max: 80})
	f := world.FanSpec{ID: "f0", Kind: "cmd", Curve: "c0", Algo: world.AlgoSpec{Kind: "direct"}}
	f.Plant = world.PlantSpec{MaxRpm: 2000, StartThr: 10, StopThr: 5, TauMs: 200, InitRpm: 600, MinRpm: 200}
	f.Driver = world.DriverSpec{NoEnable: true, InitPwm: 70}
	im := identityMap()
	f.PwmMap = &im
	sc.Fans = append(sc.Fans, f)
	scripts := []string{"@W@/scripts/s0_get.sh", "@W@/scripts/f0_getpwm.sh", "@W@/scripts/f0_setpwm.sh", "@W@/scripts/f0_getrpm.sh"}
	n := r.Range(2, 8)
	t := 3.6
	for i := 0; i < n; i++ {
		t += 0.2 + r.Float()*1.2
		s := scripts[r.Intn(len(scripts))]
		if r.Bool(0.5) {
			sc.Env = append(sc.Env, world.EnvEvent{At: sec(t), Kind: "chmod", Path: s, Value: r.Range(0, 511) | kernel.Pick(r, 0, 0o100, 0o755)})
		} else {
			sc.Env = append(sc.Env, world.EnvEvent{At: sec(t), Kind: "chown", Path: s, Value: kernel.Pick(r, 0, otherID)*100000 + kernel.Pick(r, 0, otherID)})
		}
	}
	if br := kernel.NewRand(seed, "c18loop.busy"); br.Bool(0.5) {
		// a script is held open for writing for a while (a package upgrade rewriting it in place): starting it
		// fails with "text file busy"; when the writer lets go, the file is no longer root-controlled
		nb := br.Range(1, 3)
		bt := 3.8
		for i := 0; i < nb; i++ {
			bt += 0.3 + br.Float()*1.5
			s := scripts[br.Intn(len(scripts))]
			hold := 0.06 + br.Float()*0.4
			sc.Env = append(sc.Env, world.EnvEvent{At: sec(bt), Kind: "exe.hold", Path: s})
			if br.Bool(0.5) {
				sc.Env = append(sc.Env, world.EnvEvent{At: sec(bt + hold), Kind: "exe.release", Path: s, Text: "chmod", Value: 0o777})
			} else {
				sc.Env = append(sc.Env, world.EnvEvent{At: sec(bt + hold), Kind: "exe.release", Path: s, Text: "chown", Value: otherID*100000 + otherID})
			}
			bt += hold
		}
		sc.Variant = "busy-executables"
	}
	return sc
}

type c18LoopOracle struct {
	busy    map[string]bool // executable currently held open for writing
	st      *stage.Stage
	res     *check.Result
	markers map[string]int
	pending map[string]*attrPoint // attributes at the time of the permission check
}

func statPoint(path string) (attrPoint, bool) {
	fi, err := os.Stat(path)
	if err != nil {
		return attrPoint{}, false
	}
	st := fi.Sys().(*syscall.Stat_t)
	return attrPoint{uid: int(st.Uid), gid: int(st.Gid), mode: fi.Mode().Perm()}, true
}

func (o *c18LoopOracle) OnEvent(ev *kernel.Event) {
	// the "exec" event completes right after the permission check (it carries the check's error, if any);
	// the "exec.start" yield event completes after the command ran
	switch {
	case ev.Kind == "exec":
		p, ok := statPoint(ev.Site)
		if !ok {
			return
		}
		marker := ev.Site + ".marker"
		if ev.Err != "" {
			// rejected by the check (or injected fault): nothing may have run
			o.res.Probe("loop-rejections")
			if refAllowed(p) && strings.Contains(ev.Err, "permission") {
				o.res.Violate("C18", "allowed-executed", "allowed-executed loop", ev.Seq, ev.T, "%s with %+v was rejected: %s", ev.Site, p, ev.Err)
			}
			if markerLines(marker) != o.markers[marker] {
				o.res.Violate("C18", "rejected-not-executed", "rejected-not-executed loop", ev.Seq, ev.T, "%s was rejected (%s) but its marker grew", ev.Site, ev.Err)
			}
			o.markers[marker] = markerLines(marker)
			return
		}
		o.pending[ev.Site] = &p
	case ev.Kind == "yield" && ev.Site == "exec.start":
		p := o.pending[ev.ID]
		delete(o.pending, ev.ID)
		if p == nil {
			return
		}
		marker := ev.ID + ".marker"
		grew := markerLines(marker) > o.markers[marker]
		o.markers[marker] = markerLines(marker)
		o.res.Probe("loop-executions-judged")
		now, okNow := statPoint(ev.ID)
		if !refAllowed(*p) {
			o.res.Violate("C18", "rejected-not-executed", "rejected-not-executed loop", ev.Seq, ev.T, "%s with %+v (mode %o) passed the check and was started (marker grew: %v)", ev.ID, *p, p.mode, grew)
		} else if grew && okNow && !refAllowed(now) {
			// no virtual time passes between the check and the end of the command it admits, and attributes
			// change at environment events only: the file that ran was started after a flip, without a fresh check
			o.res.Violate("C18", "checked-before-every-start", "checked-before-every-start loop", ev.Seq, ev.T,
				"%s passed its check with %+v at %s, but when the command that ran returned (%s) the file was %+v: it was started again without being checked again", ev.ID, *p, ev.T, o.st.K.Now(), now)
		} else if strings.Contains(ev.Err, "text file busy") || o.busy[ev.ID] {
			o.res.Probe("loop-starts-refused(text file busy)")
			if grew {
				o.res.Probe("loop-busy-yet-ran")
			}
		} else if p.mode&0o111 != 0 && !grew {
			o.res.Violate("C18", "allowed-executed", "allowed-executed loop", ev.Seq, ev.T, "%s with %+v (mode %o) did not run: %s", ev.ID, *p, p.mode, ev.Err)
		}
	}
}

func (o *c18LoopOracle) Finish(st *stage.Stage, res *check.Result) {
	res.Nontrivial = res.Probes["loop-executions-judged"] > 10
	res.State(fmt.Sprintf("rejections=%v", res.Probes["loop-rejections"] > 0))
}

func runC18Loop(t *testing.T, sc *world.Scenario) *check.Result {
	if os.Geteuid() != 0 {
		res := check.NewResult(sc.Family, sc.Seed)
		res.Harness = "c18 needs root (chown)"
		return res
	}
	return runL1(t, sc, func(st *stage.Stage, res *check.Result) []Oracle {
		o := &c18LoopOracle{st: st, res: res, markers: map[string]int{}, pending: map[string]*attrPoint{}, busy: map[string]bool{}}
		held := map[string]*os.File{}
		st.ExtraEnv = func(e world.EnvEvent) func() {
			path := strings.ReplaceAll(e.Path, "@W@", st.W.Dir)
			switch e.Kind {
			case "exe.hold":
				return func() {
					if f, err := os.OpenFile(path, os.O_WRONLY, 0); err == nil {
						held[path] = f
						o.busy[path] = true
						st.W.FaultsFired["exe.busy"]++
					}
				}
			case "exe.release":
				return func() {
					if e.Text == "chmod" {
						_ = os.Chmod(path, os.FileMode(e.Value))
					} else {
						_ = os.Chown(path, e.Value/100000, e.Value%100000)
					}
					st.W.FaultsFired["perm.flip"]++
					if f := held[path]; f != nil {
						_ = f.Close()
						delete(held, path)
					}
					o.busy[path] = false
				}
			}
			return nil
		}
		return []Oracle{o}
	})
}
