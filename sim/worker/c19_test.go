package worker

import (
	"fmt"
	"io"
	"os"
	"os/exec"
	"path/filepath"
	"strings"
	"testing"
	"time"

	"github.com/markusressel/fan2go/internal/util"
	"github.com/markusressel/fan2go/zverif/check"
	"github.com/markusressel/fan2go/zverif/kernel"
	"github.com/markusressel/fan2go/zverif/world"
)

// C19 — external commands cannot hang or crash fan2go.
// c19sim: the exec faults of the C09 enumeration (not executable, bad format,
// vanished between check and start, exit codes, garbage/empty/huge output,
// killed, injected timeout) inside running loops with cmd backends (L2).
// c19rt: util.SafeCmdExecution on the REAL clock against misbehaving child
// processes; the time bound cannot be decided under a simulated clock (the
// in-bubble deadline is a fake-clock timer that cannot fire while a real child
// runs), so this part is fault injection against the real kernel.

func init() {
	register(&Family{Name: "c19sim", Gen: genC19Sim, Run: func(t *testing.T, sc *world.Scenario) *check.Result {
		res := runC09(t, sc)
		for i := range res.Violations {
			res.Violations[i].Property = "C19"
			res.Violations[i].Sig = strings.Replace(res.Violations[i].Sig, "no-abrupt-termination", "no-panic", 1)
		}
		return res
	}})
	register(&Family{Name: "rt.c19", Gen: genC19RT, Run: runC19RT})
	register(&Family{Name: "rt.c19conc", Gen: genC19Conc, Run: runC19Conc})
	register(&Family{Name: "rt.c19seq", Gen: genC19Seq, Run: runC19Seq})
}

// genC19Sim walks the exec faults of the C09 enumeration.
func genC19Sim(seed uint64, tier string) *world.Scenario {
	total := c09Total()
	var idxs []int
	for i := 0; i < total; i++ {
		if _, f := c09Pick(i); f.Op == "exec" {
			idxs = append(idxs, i)
		}
	}
	sc := genC09(invIdx(idxs[int((seed%uint64(len(idxs)))*104729%uint64(len(idxs)))], total), false)
	sc.Family = "c19sim"
	sc.Seed = seed
	sc.Params["execFaults"] = float64(len(idxs))
	return sc
}

var c19Modes = []string{"ok", "ok-trailing-newlines", "exit3-output", "exit1-silent", "killed-by-signal", "not-executable", "bad-format", "missing", "path-through-a-file", "symlink-loop",
	"text-file-busy", "sleeper", "sleeper-ignores-sigterm", "grandchild-holds-stdout", "grandchild-and-sleeper", "empty-output", "garbage-output", "huge-output", "stderr-flood"}

var c19Timeouts = []time.Duration{200 * time.Millisecond, 500 * time.Millisecond, time.Second, 2 * time.Second}

func genC19RT(seed uint64, tier string) *world.Scenario {
	sc := &world.Scenario{Family: "rt.c19", Seed: seed, Params: map[string]float64{}}
	n := len(c19Modes) * len(c19Timeouts)
	idx := int(seed % uint64(n))
	sc.Params["mode"] = float64(idx / len(c19Timeouts))
	sc.Params["timeout"] = float64(idx % len(c19Timeouts))
	sc.Params["total"] = float64(n)
	sc.Variant = c19Modes[idx/len(c19Timeouts)]
	return sc
}

func runC19RT(t *testing.T, sc *world.Scenario) *check.Result {
	res := check.NewResult(sc.Family, sc.Seed)
	res.ScHash = scHash(sc)
	mode := c19Modes[int(sc.Params["mode"])]
	timeout := c19Timeouts[int(sc.Params["timeout"])]
	res.Sample = fmt.Sprintf("rt.c19 mode=%s timeout=%s", mode, timeout)
	dir, err := os.MkdirTemp(shmBase2(), fmt.Sprintf("verif-c19-%d-", os.Getpid()))
	if err != nil {
		res.Harness = err.Error()
		return res
	}
	defer os.RemoveAll(dir)
	_ = os.Chmod(dir, 0755)
	exe := filepath.Join(dir, "cmd.sh")
	long := fmt.Sprintf("%.1f", (3 * timeout).Seconds())
	body := ""
	perm := os.FileMode(0755)
	wantOut, wantErr, either := "", true, false
	switch mode {
	case "ok":
		body, wantOut, wantErr = "#!/bin/sh\necho 42\n", "42", false
	case "ok-trailing-newlines":
		body, wantOut, wantErr = "#!/bin/sh\nprintf '17\\n\\n\\n'\n", "17", false
	case "exit3-output":
		body = "#!/bin/sh\necho 55\necho bad >&2\nexit 3\n"
	case "exit1-silent":
		body = "#!/bin/sh\nexit 1\n"
	case "killed-by-signal":
		body = "#!/bin/sh\nkill -9 $$\n"
	case "not-executable":
		body, perm = "#!/bin/sh\necho 1\n", 0644
	case "bad-format":
		body = "\x7fELF this is not an executable\n"
	case "missing", "path-through-a-file", "symlink-loop":
		body = ""
	case "text-file-busy":
		// somebody holds the script open for writing (an upgrade in progress, an editor): it cannot be started
		body = "#!/bin/sh\necho 1\n"
	case "sleeper":
		body = "#!/bin/sh\nsleep " + long + "\necho 1\n"
	case "sleeper-ignores-sigterm":
		body = "#!/bin/sh\ntrap '' TERM INT HUP\nsleep " + long + " &\nwait\nsleep " + long + "\necho 1\n"
	case "grandchild-holds-stdout":
		// the command itself finishes at once; its output pipe stays open: output or error, but in time
		body, wantOut, wantErr, either = "#!/bin/sh\n(sleep "+long+") &\necho 5\nexit 0\n", "5", false, true
	case "grandchild-and-sleeper":
		body = "#!/bin/sh\n(sleep " + long + ") &\nsleep " + long + "\necho 5\n"
	case "empty-output":
		body, wantOut, wantErr = "#!/bin/sh\nexit 0\n", "", false
	case "garbage-output":
		body, wantOut, wantErr = "#!/bin/sh\nprintf 'n/a \\377\\376 %%s'\n", "n/a \xff\xfe %s", false
	case "huge-output":
		body, wantErr = "#!/bin/sh\nhead -c 3000000 /dev/zero | tr '\\0' '7'\n", false
		wantOut = strings.Repeat("7", 3000000)
		// three megabytes through two processes and a pipe: with a deadline of a fraction of a second the command
		// may honestly run into it on a busy machine - then the deadline error is the right answer, in time
		either = timeout < time.Second
	case "stderr-flood":
		body, wantOut, wantErr = "#!/bin/sh\nhead -c 2000000 /dev/zero | tr '\\0' 'e' >&2\necho 9\n", "9", false
	}
	switch mode {
	case "path-through-a-file":
		// a component of the path is a regular file (ENOTDIR, not ENOENT)
		_ = os.WriteFile(filepath.Join(dir, "plain"), []byte("x\n"), 0644)
		exe = filepath.Join(dir, "plain", "cmd.sh")
	case "symlink-loop":
		// the executable is a symbolic link to itself (ELOOP)
		_ = os.Symlink(exe, exe)
	}
	if body != "" || (mode != "missing" && mode != "path-through-a-file" && mode != "symlink-loop") {
		if err := os.WriteFile(exe, []byte(body), perm); err != nil {
			res.Harness = err.Error()
			return res
		}
		_ = os.Chmod(exe, perm)
	}
	type outcome struct {
		out string
		err error
	}
	if mode == "text-file-busy" {
		wf, err := os.OpenFile(exe, os.O_WRONLY, 0)
		if err != nil {
			res.Harness = err.Error()
			return res
		}
		defer wf.Close()
	}
	done := make(chan outcome, 1)
	start := time.Now()
	go func() {
		out, err := util.SafeCmdExecution(exe, []string{}, timeout)
		done <- outcome{out, err}
	}()
	margin := 1500 * time.Millisecond
	sig := fmt.Sprintf("mode=%s", mode)
	select {
	case o := <-done:
		el := time.Since(start)
		res.Probe("calls-judged")
		if el > timeout+margin {
			if overloaded() {
				res.Probe("unjudged(machine too slow for this real-time case)")
			} else {
				res.Violate("C19", "returns-in-time", "returns-in-time "+sig, 0, nil, "%s with timeout %s returned after %s (bound %s)", mode, timeout, el.Round(time.Millisecond), timeout+margin)
			}
		}
		if wantErr && o.err == nil {
			res.Violate("C19", "error-reported", "error-reported "+sig, 0, nil, "%s: no error returned (output %q)", mode, trunc(o.out, 40))
		}
		if !wantErr && !(either && o.err != nil) {
			// a command that finished in time with exit status 0: its trimmed output
			if o.err != nil {
				// a command that should finish in milliseconds ran into its deadline: before blaming fan2go,
				// time the same command without fan2go in between - on an overloaded machine it may really
				// take that long, and then this case cannot be judged
				if el >= timeout-50*time.Millisecond && slowMachine(exe, timeout) {
					res.Probe("unjudged(machine too slow for this real-time case)")
				} else {
					res.Violate("C19", "output-returned", "output-returned "+sig, 0, nil, "%s with timeout %s: unexpected error %v after %s", mode, timeout, o.err, el.Round(time.Millisecond))
				}
			} else if o.out != wantOut {
				res.Violate("C19", "output-returned", "output-returned "+sig, 0, nil, "%s: output %q, want %q", mode, trunc(o.out, 40), trunc(wantOut, 40))
			}
		}
		res.VirtualSec = 0
		res.Notes["elapsed"] = el.Round(time.Millisecond).String()
	case <-time.After(timeout + 6*time.Second):
		res.Probe("calls-judged")
		res.Violate("C19", "returns-in-time", "returns-in-time "+sig, 0, nil, "%s with timeout %s had not returned after %s", mode, timeout, timeout+6*time.Second)
	}
	res.Events = 1
	res.Nontrivial = true
	res.State(mode)
	return res
}

// rt.c19conc: several callers (sensor monitor, control loops, RPM monitors of several fans) run the SAME
// executable at the same time on the real clock; some invocations hang beyond the deadline. Every call -
// the hanging ones and a quick one issued while they hang - must return within its own timeout + margin.
func genC19Conc(seed uint64, tier string) *world.Scenario {
	sc := &world.Scenario{Family: "rt.c19conc", Seed: seed, Params: map[string]float64{}}
	r := kernel.NewRand(seed, "c19conc")
	sc.Params["timeoutMs"] = float64(kernel.Pick(r, 1000, 1000, 2000))
	sc.Params["hangers"] = float64(r.Range(2, 4))
	sc.Params["quick"] = float64(r.Range(1, 2))
	sc.Params["staggerMs"] = float64(r.Range(0, 120))
	sc.Variant = fmt.Sprintf("hangers=%d", int(sc.Params["hangers"]))
	return sc
}

func runC19Conc(t *testing.T, sc *world.Scenario) *check.Result {
	res := check.NewResult(sc.Family, sc.Seed)
	res.ScHash = scHash(sc)
	timeout := time.Duration(sc.Params["timeoutMs"]) * time.Millisecond
	hangers, quick := int(sc.Params["hangers"]), int(sc.Params["quick"])
	stagger := time.Duration(sc.Params["staggerMs"]) * time.Millisecond
	res.Sample = fmt.Sprintf("rt.c19conc timeout=%s hangers=%d quick=%d stagger=%s", timeout, hangers, quick, stagger)
	dir, err := os.MkdirTemp(shmBase2(), fmt.Sprintf("verif-c19c-%d-", os.Getpid()))
	if err != nil {
		res.Harness = err.Error()
		return res
	}
	defer os.RemoveAll(dir)
	_ = os.Chmod(dir, 0755)
	exe := filepath.Join(dir, "cmd.sh")
	body := fmt.Sprintf("#!/bin/sh\nif [ \"$1\" = hang ]; then sleep %.1f; fi\necho 7\n", (3 * timeout).Seconds())
	if err := os.WriteFile(exe, []byte(body), 0755); err != nil {
		res.Harness = err.Error()
		return res
	}
	_ = os.Chmod(exe, 0755)
	type outcome struct {
		kind string
		el   time.Duration
		out  string
		err  error
	}
	n := hangers + quick
	done := make(chan outcome, n)
	call := func(kind string, delay time.Duration) {
		time.Sleep(delay)
		start := time.Now()
		out, err := util.SafeCmdExecution(exe, []string{kind}, timeout)
		done <- outcome{kind, time.Since(start), out, err}
	}
	for i := 0; i < hangers; i++ {
		go call("hang", time.Duration(i)*stagger/time.Duration(hangers))
	}
	for i := 0; i < quick; i++ {
		go call("quick", stagger+time.Duration(50+100*i)*time.Millisecond)
	}
	margin := 1500 * time.Millisecond
	deadline := time.After(time.Duration(hangers+1)*timeout + 8*time.Second)
	for got := 0; got < n; got++ {
		select {
		case o := <-done:
			res.Probe("calls-judged")
			sig := fmt.Sprintf("concurrent same-executable call=%s", o.kind)
			if o.el > timeout+margin {
				if overloaded() {
					res.Probe("unjudged(machine too slow for this real-time case)")
				} else {
					res.Violate("C19", "returns-in-time", "returns-in-time "+sig, 0, nil, "%d hanging and %d quick calls of one executable at the same time (timeout %s): a %s call returned after %s (bound %s)", hangers, quick, timeout, o.kind, o.el.Round(time.Millisecond), timeout+margin)
				}
			}
			if o.kind == "hang" && o.err == nil {
				res.Violate("C19", "error-reported", "error-reported "+sig, 0, nil, "a call that ran into its deadline returned no error (output %q)", trunc(o.out, 40))
			}
			if o.kind == "quick" && (o.err != nil || o.out != "7") {
				res.Violate("C19", "output-returned", "output-returned "+sig, 0, nil, "the quick call returned %q, %v after %s", trunc(o.out, 40), o.err, o.el.Round(time.Millisecond))
			}
		case <-deadline:
			res.Probe("calls-judged")
			res.Violate("C19", "returns-in-time", "returns-in-time concurrent same-executable call=lost", 0, nil, "only %d of %d concurrent calls had returned when the watchdog expired", got, n)
			got = n
		}
	}
	res.Events = n
	res.Nontrivial = true
	res.State(sc.Variant)
	return res
}

// rt.c19seq: what a long-running daemon does - many calls one after the other in ONE process, healthy
// commands interleaved with commands that run into their deadline, fail to start or exit non-zero. Every
// call is judged like a single one: nothing may accumulate from call to call.
func genC19Seq(seed uint64, tier string) *world.Scenario {
	sc := &world.Scenario{Family: "rt.c19seq", Seed: seed, Params: map[string]float64{}}
	r := kernel.NewRand(seed, "c19seq")
	sc.Params["calls"] = float64(r.Range(14, 24))
	sc.Params["timeoutMs"] = float64(kernel.Pick(r, 200, 300, 400))
	sc.Variant = "sequence"
	return sc
}

func runC19Seq(t *testing.T, sc *world.Scenario) *check.Result {
	res := check.NewResult(sc.Family, sc.Seed)
	res.ScHash = scHash(sc)
	timeout := time.Duration(sc.Params["timeoutMs"]) * time.Millisecond
	n := int(sc.Params["calls"])
	res.Sample = fmt.Sprintf("rt.c19seq calls=%d timeout=%s", n, timeout)
	dir, err := os.MkdirTemp(shmBase2(), fmt.Sprintf("verif-c19s-%d-", os.Getpid()))
	if err != nil {
		res.Harness = err.Error()
		return res
	}
	defer os.RemoveAll(dir)
	_ = os.Chmod(dir, 0755)
	exe := filepath.Join(dir, "cmd.sh")
	// every call prints a token of its own ($2); the failing kinds come in a quiet flavour and in one that has
	// already written (part of) its output when it fails or runs into the deadline
	body := fmt.Sprintf("#!/bin/sh\ncase \"$1\" in hang) sleep %.1f;; hangout) echo \"$2\"; sleep %.1f;; fail) echo no >&2; exit 3;; failout) echo \"$2\"; echo no >&2; exit 3;; esac\necho \"$2\"\n", (4 * timeout).Seconds(), (4 * timeout).Seconds())
	if err := os.WriteFile(exe, []byte(body), 0755); err != nil {
		res.Harness = err.Error()
		return res
	}
	_ = os.Chmod(exe, 0755)
	r := kernel.NewRand(sc.Seed, "c19seq.calls")
	margin := 1500 * time.Millisecond
	hangs := 0
	prevKind := ""
	for i := 0; i < n; i++ {
		kind := kernel.Pick(r, "ok", "ok", "ok", "hang", "hangout", "fail", "failout", "missing")
		token := fmt.Sprintf("%d", 100+i)
		path := exe
		if kind == "missing" {
			path = filepath.Join(dir, "nope.sh")
		}
		type outcome struct {
			out string
			err error
		}
		done := make(chan outcome, 1)
		start := time.Now()
		go func() {
			out, err := util.SafeCmdExecution(path, []string{kind, token}, timeout)
			done <- outcome{out, err}
		}()
		sig := fmt.Sprintf("sequence call=%s", kind)
		select {
		case o := <-done:
			el := time.Since(start)
			res.Probe("calls-judged")
			if el > timeout+margin {
				if overloaded() {
					res.Probe("unjudged(machine too slow for this real-time case)")
				} else {
					res.Violate("C19", "returns-in-time", "returns-in-time "+sig, i, nil, "call #%d (%s) of a sequence with %d timed-out calls before it returned after %s (bound %s)", i, kind, hangs, el.Round(time.Millisecond), timeout+margin)
				}
			}
			if kind == "ok" && (o.err != nil || o.out != token) {
				res.Violate("C19", "output-returned", "output-returned "+sig+" after="+prevKind, i, nil, "call #%d (healthy command printing %q, %d timed-out calls before it, the call before it: %s) returned %q, %v", i, token, hangs, prevKind, trunc(o.out, 40), o.err)
			}
			if kind != "ok" && o.err == nil {
				res.Violate("C19", "error-reported", "error-reported "+sig, i, nil, "call #%d (%s) returned no error (output %q)", i, kind, trunc(o.out, 40))
			}
		case <-time.After(timeout + 6*time.Second):
			res.Probe("calls-judged")
			res.Violate("C19", "returns-in-time", "returns-in-time "+sig, i, nil, "call #%d (%s) of a sequence with %d timed-out calls before it had not returned after %s", i, kind, hangs, timeout+6*time.Second)
			res.Events = i
			res.Nontrivial = true
			return res
		}
		if kind == "hang" || kind == "hangout" {
			hangs++
		}
		if kind == "ok" && prevKind != "" && prevKind != "ok" {
			res.Probe("healthy-call-after:" + prevKind)
		}
		prevKind = kind
	}
	res.ProbeN("timed-out-calls-in-sequences", hangs)
	res.Events = n
	res.Nontrivial = true
	res.State(fmt.Sprintf("hangs>=4:%v", hangs >= 4))
	return res
}

// slowMachine runs the command directly (no fan2go code involved) and reports whether it needs more than
// half of the timeout on this machine right now.
func slowMachine(exe string, timeout time.Duration) bool {
	start := time.Now()
	c := exec.Command(exe)
	c.Stdout, c.Stderr = io.Discard, io.Discard
	done := make(chan struct{})
	go func() { _ = c.Run(); close(done) }()
	select {
	case <-done:
	case <-time.After(10 * time.Second):
		if c.Process != nil {
			_ = c.Process.Kill()
		}
	}
	return time.Since(start) > timeout/2
}

// overloaded: starting and reaping a trivial process takes more than a quarter of a second on this machine
// right now: real-time bounds of fractions of a second cannot be judged then.
func overloaded() bool {
	worst := time.Duration(0)
	for i := 0; i < 3; i++ {
		start := time.Now()
		_ = exec.Command("/bin/true").Run()
		if d := time.Since(start); d > worst {
			worst = d
		}
	}
	return worst > 250*time.Millisecond
}

func trunc(s string, n int) string {
	if len(s) > n {
		return s[:n] + "…"
	}
	return s
}

var _ = kernel.Pick[int]

// invIdx returns a seed that genC09 maps to enumeration index idx.
func invIdx(idx, total int) uint64 {
	for s := 0; s < total; s++ {
		if int(uint64(s)*7919%uint64(total)) == idx {
			return uint64(s)
		}
	}
	return 0
}
