package worker

import (
	"fmt"
	"net/http"
	"net/http/httptest"
	"os"
	"testing"
	"time"

	"github.com/markusressel/fan2go/internal/api"
	"github.com/markusressel/fan2go/zverif/check"
	"github.com/markusressel/fan2go/zverif/kernel"
	"github.com/markusressel/fan2go/zverif/stage"
	"github.com/markusressel/fan2go/zverif/world"
	"github.com/prometheus/client_golang/prometheus"
)

// C20 — concurrent activities are free of data races. Worlds built with
// -race: several fans sharing one curve and one sensor, all three backends,
// RPM monitors, control loops and sensor monitors at high rates, plus client
// tasks calling the REST handlers and the metrics collectors. The race reports
// are collected from the worker's stderr by the orchestrator.

func init() {
	register(&Family{Name: "c20", Gen: func(seed uint64, tier string) *world.Scenario { return genC20("c20", seed, false) }, Run: runC20})
	register(&Family{Name: "c20free", Gen: func(seed uint64, tier string) *world.Scenario { return genC20("c20free", seed, true) }, Run: runC20})
}

func genC20(fam string, seed uint64, free bool) *world.Scenario {
	sc, r := baseScenario(fam, seed)
	chip := addChip(sc, "simchip")
	sc.Tick, sc.TempPoll, sc.RpmPoll = ms(kernel.Pick(r, 20, 50, 100)), ms(kernel.Pick(r, 20, 50, 100)), ms(kernel.Pick(r, 20, 50, 100))
	sc.Horizon = sec(float64(r.Range(6, 9)))
	sc.ParallelInit = true
	sc.Params["race"] = 1
	if free {
		sc.Params["free"] = 1
	}
	sc.LatMin, sc.LatMax = 0, world.Dur(200*time.Microsecond)
	// one shared sensor and curve, plus a PID curve and a function curve over both
	sc.Sensors = append(sc.Sensors, world.SensorSpec{ID: "s0", Kind: kernel.Pick(r, "hwmon", "file"), Prog: world.TempProg{Kind: "ramp", Base: 30000, Delta: 500, Every: ms(100), Lo: 0, Hi: 90000}, Chip: chip, TempN: 1})
	if sc.Sensors[0].Kind == "file" && kernel.NewRand(seed, "c20.home").Bool(0.5) {
		sc.Sensors[0].HomeRelative = true // configured as "~/..."
	}
	if er := kernel.NewRand(seed, "c20.sensorfile"); sc.Sensors[0].Kind == "file" && !sc.Sensors[0].HomeRelative && er.Bool(0.5) {
		// the sensor's file disappears and comes back a few times (a tmpfs being remounted, a writer that
		// replaces the file non-atomically): the error paths of everybody who reads the sensor run concurrently
		t := 3.6 + er.Float()
		for i, n := 0, er.Range(2, 5); i < n; i++ {
			sc.Env = append(sc.Env, world.EnvEvent{Kind: "remove", Path: "@W@/files/s0.temp", At: sec(t)})
			t += 0.05 + er.Float()*0.4
			sc.Env = append(sc.Env, world.EnvEvent{Kind: "setfile", Path: "@W@/files/s0.temp", Text: "47000\n", At: sec(t)})
			t += 0.1 + er.Float()*0.5
		}
	}
	sc.Curves = append(sc.Curves,
		world.CurveSpec{ID: "shared", Kind: "linear", Sensor: "s0", Min: 20, Max: 80},
		world.CurveSpec{ID: "pidc", Kind: "pid", Sensor: "s0", PID: &world.PidSpec{SetPoint: 45, P: -0.05, I: -0.005, D: -0.005}},
		world.CurveSpec{ID: "fn", Kind: "function", Func: "maximum", Members: []string{"shared", "pidc"}})
	nf := r.Range(2, 4)
	for i := 0; i < nf; i++ {
		kind := kernel.Pick(r, "hwmon", "hwmon", "file", "cmd")
		if free && kind == "cmd" {
			kind = "file"
		}
		f := world.FanSpec{ID: fmt.Sprintf("f%d", i), Kind: kind, Curve: kernel.Pick(r, "shared", "shared", "fn"), Chip: chip, Channel: i + 1}
		f.Plant = defaultPlant(r)
		f.Plant.MinRpm = 200
		f.Driver = world.DriverSpec{InitMode: 2, InitPwm: r.Range(0, 255), AutoPwm: 100, NoEnable: kind != "hwmon"}
		f.NeverStop = r.Bool(0.5)
		f.Algo = world.AlgoSpec{Kind: kernel.Pick(r, "direct", "", "pid")}
		if f.Algo.Kind == "pid" {
			f.Algo.P, f.Algo.I, f.Algo.D = 0.3, 0.02, 0.005
		}
		if r.Bool(0.7) || free {
			im := identityMap()
			f.PwmMap = &im
		}
		if kind == "hwmon" {
			preseedRpmCurve(sc, f.ID, linearRpmCurve(f.Plant.StartThr, 255, f.Plant.MaxRpm))
		}
		sc.Fans = append(sc.Fans, f)
	}
	return sc
}

func runC20(t *testing.T, sc *world.Scenario) *check.Result {
	fmt.Fprintf(os.Stderr, "VERIF-SEED %s %d\n", sc.Family, sc.Seed)
	res := runL1(t, sc, func(st *stage.Stage, res *check.Result) []Oracle {
		st.W.RaceMode = true
		free := sc.Params["free"] == 1
		if free {
			st.W.FreeRun = true
		}
		st.OnBooted = func(st *stage.Stage) {
			// (the controller collector is registered by the daemon's own initializeFanControllers, which the stage calls)
			rest := api.CreateRestService()
			get := func(path string) {
				req := httptest.NewRequest(http.MethodGet, path, nil)
				rec := httptest.NewRecorder()
				rest.ServeHTTP(rec, req)
			}
			r := kernel.NewRand(sc.Seed, "c20.clients")
			paths := []string{"/fan/", "/sensor/", "/curve/", "/alive/", "/curve/shared/", "/curve/fn/", "/sensor/s0/"}
			for _, id := range st.W.SortedFanIDs() {
				paths = append(paths, "/fan/"+id+"/")
			}
			client := func(name string, seed uint64, fn func(r *kernel.Rand)) {
				go func() {
					cr := kernel.NewRand(seed, name)
					time.Sleep(3500 * time.Millisecond)
					for st.Ctx.Err() == nil {
						time.Sleep(time.Duration(cr.Range(5, 120)) * time.Millisecond)
						if !free {
							st.K.Step("client:" + name)
						}
						fn(cr)
					}
				}()
			}
			client("rest-a", r.Uint64(), func(cr *kernel.Rand) { get(paths[cr.Intn(len(paths))]) })
			client("rest-b", r.Uint64(), func(cr *kernel.Rand) { get(paths[cr.Intn(len(paths))]) })
			client("metrics", r.Uint64(), func(cr *kernel.Rand) { _, _ = prometheus.DefaultGatherer.Gather() })
		}
		return nil
	})
	res.Nontrivial = res.Events > 100 || sc.Params["free"] == 1
	res.Probe("race-runs")
	res.State(fmt.Sprintf("free=%v|fans=%d", sc.Params["free"] == 1, len(sc.Fans)))
	return res
}
