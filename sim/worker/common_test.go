package worker

import (
	"bufio"
	"encoding/json"
	"fmt"
	"hash/fnv"
	"os"
	"sort"
	"strconv"
	"strings"
	"testing"
	"testing/synctest"

	"github.com/markusressel/fan2go/zverif/check"
	"github.com/markusressel/fan2go/zverif/kernel"
	"github.com/markusressel/fan2go/zverif/stage"
	"github.com/markusressel/fan2go/zverif/world"
)

// Family is one scenario generator plus its oracles.
type Family struct {
	Name string
	// Gen builds the scenario for a seed. tier is "quick" or "thorough".
	Gen func(seed uint64, tier string) *world.Scenario
	// Run executes one scenario and judges it.
	Run func(t *testing.T, sc *world.Scenario) *check.Result
}

var families = map[string]*Family{}

func register(f *Family) { families[f.Name] = f }

// Oracle consumes completed events in order and is finished after the run.
type Oracle interface {
	OnEvent(ev *kernel.Event)
	Finish(st *stage.Stage, res *check.Result)
}

func scHash(sc *world.Scenario) string {
	h := fnv.New64a()
	b, _ := json.Marshal(sc)
	h.Write(b)
	return fmt.Sprintf("%016x", h.Sum64())
}

// runL1 executes the scenario in a bubble with the L1 stage. attach may
// install a sampler and returns the oracles.
func runL1(t *testing.T, sc *world.Scenario, attach func(st *stage.Stage, res *check.Result) []Oracle) *check.Result {
	res := check.NewResult(sc.Family, sc.Seed)
	res.ScHash = scHash(sc)
	res.Sample = stage.Describe(sc)
	var bubblePanic any
	func() {
		defer func() {
			if r := recover(); r != nil {
				bubblePanic = r
			}
		}()
		synctest.Test(t, func(t *testing.T) {
			st, err := stage.New(sc)
			if err != nil {
				res.Harness = "stage.New: " + err.Error()
				return
			}
			defer st.Close()
			oracles := attach(st, res)
			for _, o := range oracles {
				st.K.AddConsumer(o.OnEvent)
			}
			if os.Getenv("VERIF_TRACE") != "" {
				st.K.AddConsumer(func(ev *kernel.Event) {
					b, _ := json.Marshal(ev)
					fmt.Fprintf(os.Stderr, "EV %s\n", b)
				})
			}
			reason := st.Execute()
			stats := st.K.Finish()
			res.Reason = reason
			res.Events = stats.Events
			res.MultiCh = stats.MultiChoice
			res.VirtualSec = stats.VirtualTime.Seconds()
			res.Hash = fmt.Sprintf("%016x", st.K.Hash())
			res.Interleave = fmt.Sprintf("%016x", stats.InterleavHash)
			for k, v := range st.W.FaultsFired {
				res.Faults[k] += v
			}
			if n := st.W.DelaysFired(); n > 0 {
				res.Faults["op.delay"] += n
			}
			if st.BootErr != nil {
				res.Notes["bootErr"] = st.BootErr.Error()
			}
			if reason == "maxevents" {
				res.Harness = "event cap reached"
			}
			for _, o := range oracles {
				o.Finish(st, res)
			}
		})
	}()
	if bubblePanic != nil {
		msg := fmt.Sprint(bubblePanic)
		if !strings.Contains(msg, "deadlock") {
			res.Harness = "bubble panic: " + msg
		} else {
			res.Notes["bubble"] = "goroutines left parked at end"
		}
	}
	res.SortStates()
	return res
}

// ---------------------------------------------------------------------------
// worker protocol: VERIF_JOB=<file> with one JSON job; results on stdout as
// "BEGIN <family> <seed>" / "END <json>" lines.

type Job struct {
	Family   string          `json:"family"`
	Tier     string          `json:"tier"`
	From     uint64          `json:"from"`
	N        int             `json:"n"`
	Stride   uint64          `json:"stride"`
	Scenario *world.Scenario `json:"scenario,omitempty"` // replay / shrink candidate
	DumpDir  string          `json:"dumpDir,omitempty"`  // write scenario JSON of violating runs here
}

func TestWorker(t *testing.T) {
	jobPath := os.Getenv("VERIF_JOB")
	if jobPath == "" {
		t.Skip("not a worker invocation")
	}
	data, err := os.ReadFile(jobPath)
	if err != nil {
		t.Fatal(err)
	}
	var job Job
	if err := json.Unmarshal(data, &job); err != nil {
		t.Fatal(err)
	}
	out := bufio.NewWriter(os.Stdout)
	defer out.Flush()
	emit := func(res *check.Result) {
		b, _ := json.Marshal(res)
		fmt.Fprintf(out, "END %s\n", b)
		out.Flush()
	}
	if job.Scenario != nil {
		fam := families[job.Scenario.Family]
		if fam == nil {
			t.Fatalf("unknown family %q", job.Scenario.Family)
		}
		fmt.Fprintf(out, "BEGIN %s %d\n", fam.Name, job.Scenario.Seed)
		out.Flush()
		emit(fam.Run(t, job.Scenario))
		return
	}
	fam := families[job.Family]
	if fam == nil {
		t.Fatalf("unknown family %q", job.Family)
	}
	stride := job.Stride
	if stride == 0 {
		stride = 1
	}
	for i := 0; i < job.N; i++ {
		seed := job.From + uint64(i)*stride
		fmt.Fprintf(out, "BEGIN %s %d\n", fam.Name, seed)
		out.Flush()
		sc := fam.Gen(seed, job.Tier)
		res := fam.Run(t, sc)
		if len(res.Violations) > 0 && job.DumpDir != "" {
			_ = os.MkdirAll(job.DumpDir, 0755)
			_ = os.WriteFile(fmt.Sprintf("%s/%s-%d.json", job.DumpDir, fam.Name, seed), []byte(sc.JSON()), 0644)
		}
		emit(res)
	}
}

// TestOne runs one seed of one family verbosely: VERIF_FAMILY, VERIF_SEED.
func TestOne(t *testing.T) {
	name := os.Getenv("VERIF_FAMILY")
	if name == "" {
		t.Skip()
	}
	fam := families[name]
	if fam == nil {
		var names []string
		for n := range families {
			names = append(names, n)
		}
		sort.Strings(names)
		t.Fatalf("unknown family %q; have %v", name, names)
	}
	seed, _ := strconv.ParseUint(os.Getenv("VERIF_SEED"), 10, 64)
	n := 1
	if v := os.Getenv("VERIF_N"); v != "" {
		n, _ = strconv.Atoi(v)
	}
	tier := os.Getenv("VERIF_TIER")
	if tier == "" {
		tier = "quick"
	}
	for i := 0; i < n; i++ {
		sc := fam.Gen(seed+uint64(i), tier)
		if os.Getenv("VERIF_SHOWSC") != "" {
			fmt.Println(sc.JSON())
		}
		res := fam.Run(t, sc)
		b, _ := json.MarshalIndent(res, "", " ")
		fmt.Println(string(b))
	}
}

// TestGen prints the scenario of (family, seed) for the orchestrator.
func TestGen(t *testing.T) {
	name := os.Getenv("VERIF_GEN_FAMILY")
	if name == "" {
		t.Skip()
	}
	fam := families[name]
	if fam == nil {
		t.Fatalf("unknown family %q", name)
	}
	seed, _ := strconv.ParseUint(os.Getenv("VERIF_GEN_SEED"), 10, 64)
	tier := os.Getenv("VERIF_GEN_TIER")
	sc := fam.Gen(seed, tier)
	b, _ := json.Marshal(sc)
	fmt.Printf("SCENARIO %s\n", b)
}
