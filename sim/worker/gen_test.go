package worker

import (
	"encoding/json"
	"fmt"
	"time"

	"github.com/markusressel/fan2go/zverif/kernel"
	"github.com/markusressel/fan2go/zverif/world"
)

func ms(n int) world.Dur { return world.Dur(time.Duration(n) * time.Millisecond) }
func sec(f float64) world.Dur {
	return world.Dur(time.Duration(f * float64(time.Second)))
}

// baseScenario draws the global settings common to all L1 families.
func baseScenario(family string, seed uint64) (*world.Scenario, *kernel.Rand) {
	r := kernel.NewRand(seed, "scenario."+family)
	sc := &world.Scenario{
		Family:           family,
		Seed:             seed,
		TempPoll:         ms(kernel.Pick(r, 100, 200, 200, 250, 500)),
		RpmPoll:          ms(kernel.Pick(r, 200, 500, 1000, 1000)),
		Tick:             ms(kernel.Pick(r, 100, 200, 200, 250, 500)),
		TempWin:          kernel.Pick(r, 1, 1, 2, 5, 10),
		RpmWin:           kernel.Pick(r, 1, 2, 5, 10),
		ParallelInit:     true,
		FanResponseDelay: 2,
		MaxRpmDiff:       20,
		LatMin:           world.Dur(5 * time.Microsecond),
		LatMax:           world.Dur(2 * time.Millisecond),
		Grace:            sec(30),
		Params:           map[string]float64{},
	}
	return sc, r
}

func addChip(sc *world.Scenario, name string) int {
	i := len(sc.Chips)
	sc.Chips = append(sc.Chips, world.ChipSpec{Dir: fmt.Sprintf("hwmon%d", i), Name: name, Bus: 1, BusNr: 0, Addr: 0x290 + i})
	return i
}

// rpmCurveJSON renders PWM→RPM data as stored in the database.
func rpmCurveJSON(m map[int]float64) string {
	b, _ := json.Marshal(m)
	return string(b)
}

// linearRpmCurve: 0 RPM below start, then linear up to maxRpm at maxEff.
func linearRpmCurve(startThr, maxEff, maxRpm int) map[int]float64 {
	m := map[int]float64{}
	for p := 0; p <= 255; p++ {
		x := p
		if x > maxEff {
			x = maxEff
		}
		v := 0.0
		if p >= startThr && p > 0 {
			v = float64(maxRpm) * float64(x) / float64(maxEff)
		}
		m[p] = float64(int(v))
	}
	return m
}

func preseedRpmCurve(sc *world.Scenario, fanID string, m map[int]float64) {
	sc.DB = append(sc.DB, world.DBEntry{Bucket: "fans", Key: fanID, Value: rpmCurveJSON(m)})
}

func constTemp(v int) world.TempProg { return world.TempProg{Kind: "const", Base: v} }

// addSimpleLoop adds sensor s<i>, linear curve c<i> (20..80 °C) and returns their ids.
func addSensorCurve(sc *world.Scenario, r *kernel.Rand, i int, kind string, prog world.TempProg, chip int) (string, string) {
	sid := fmt.Sprintf("s%d", i)
	cid := fmt.Sprintf("c%d", i)
	sp := world.SensorSpec{ID: sid, Kind: kind, Prog: prog, Chip: chip, TempN: i + 1}
	sc.Sensors = append(sc.Sensors, sp)
	sc.Curves = append(sc.Curves, world.CurveSpec{ID: cid, Kind: "linear", Sensor: sid, Min: 20, Max: 80})
	return sid, cid
}

// tempForCurve returns the milli-degree temperature at which a 20..80 linear curve yields value v.
func tempForCurve(v int) int {
	return 20000 + (60000*v+254)/255
}

func defaultPlant(r *kernel.Rand) world.PlantSpec {
	start := r.Range(10, 60)
	return world.PlantSpec{MaxRpm: r.Range(1200, 3000), StartThr: start, StopThr: start - r.Range(0, 8), TauMs: r.Range(100, 1500), InitRpm: 900}
}

func jsonUnmarshal(s string, v any) error { return json.Unmarshal([]byte(s), v) }
