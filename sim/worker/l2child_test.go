package worker

import (
	"encoding/json"
	"fmt"
	"os"
	"os/signal"
	"path/filepath"
	"runtime/debug"
	"strconv"
	"strings"
	"syscall"
	"testing"
	"testing/synctest"
	"time"

	"github.com/markusressel/fan2go/cmd"
	"github.com/markusressel/fan2go/internal/curves"
	"github.com/markusressel/fan2go/internal/fans"
	"github.com/markusressel/fan2go/internal/simhook"
	"github.com/markusressel/fan2go/zverif/kernel"
	"github.com/markusressel/fan2go/zverif/stage"
	"github.com/markusressel/fan2go/zverif/world"
	bolt "go.etcd.io/bbolt"
)

// L2 child: one OS process = one incarnation of the real fan2go program
// (cobra root command → configuration loading → validation → RunDaemon, or a
// sub-command) inside a bubble under the kernel. Everything it observes goes to
// a journal file event by event, because the process ends in os.Exit or a panic.

type childSpec struct {
	Scenario *world.Scenario `json:"scenario"`
	Args     []string        `json:"args"`    // fan2go command line after the config flag (empty = daemon)
	RawYAML  string          `json:"rawYaml"` // use this document instead of rendering the scenario
	OutDir   string          `json:"outDir"`
	WorldDir string          `json:"worldDir"`
	Sweep    bool            `json:"sweep"` // evaluate every curve under several sensor states once booted (C11)
	Env      []string        `json:"env"`   // extra environment of the child process (e.g. DISPLAY=:77)
	// CfgLayout: how the configuration file is reached ("" = <world>/fan2go.yaml; "symlink" = through a symbolic
	// link; "dotdot" = <world>/etc/current/../fan2go.yaml where current is a symbolic link to releases/v1, so
	// that the file loaded is etc/releases/fan2go.yaml while a root-controlled decoy sits at etc/fan2go.yaml;
	// "relative" = -c ./fan2go.yaml with the world as working directory; "cwd" = no -c, found by the search path)
	CfgLayout string `json:"cfgLayout"`
	// CfgAttr: owner, group and mode given to the configuration file that is actually loaded (mode 0 = leave)
	CfgUID, CfgGID int
	CfgMode        uint32
	// DropToUID: the program runs with this (non-root) user and group id: the harness sets the world up as root
	// and gives up its privileges right before the program starts
	DropToUID int
}

type journalLine struct {
	Ev   *kernel.Event `json:"ev,omitempty"`
	Note string        `json:"note,omitempty"`
	T    time.Duration `json:"t,omitempty"`
}

func TestDaemonChild(t *testing.T) {
	specPath := os.Getenv("VERIF_L2_SPEC")
	if specPath == "" {
		t.Skip("not a child invocation")
	}
	data, err := os.ReadFile(specPath)
	if err != nil {
		t.Fatal(err)
	}
	var spec childSpec
	if err := json.Unmarshal(data, &spec); err != nil {
		t.Fatal(err)
	}
	sc := spec.Scenario
	os.Setenv("VERIF_WORLD_DIR", spec.WorldDir)
	os.Unsetenv("DISPLAY") // the sandbox's own display, if any, is not part of the scenario
	for _, kv := range spec.Env {
		if k, v, ok := strings.Cut(kv, "="); ok {
			os.Setenv(k, v)
		}
	}
	// start the os/signal machinery outside the bubble: the daemon's own
	// signal.Notify then only registers a handler
	warm := make(chan os.Signal, 1)
	signal.Notify(warm, syscall.SIGUSR2)

	jf, err := os.OpenFile(filepath.Join(spec.OutDir, "journal.jsonl"), os.O_CREATE|os.O_WRONLY|os.O_APPEND, 0644)
	if err != nil {
		t.Fatal(err)
	}
	if os.Getenv("VERIF_LOG") == "" {
		if lf, err := os.OpenFile(filepath.Join(spec.OutDir, "ui.log"), os.O_CREATE|os.O_WRONLY|os.O_TRUNC, 0644); err == nil {
			stage.SetLogWriter(lf)
		}
	}
	write := func(l journalLine) {
		b, _ := json.Marshal(l)
		b = append(b, '\n')
		_, _ = jf.Write(b)
	}
	synctest.Test(t, func(t *testing.T) {
		k := kernel.New(sc.Seed)
		k.FirstCandidate = sc.FirstCandidate
		w, err := world.New(sc, k)
		if err != nil {
			write(journalLine{Note: "harness: " + err.Error()})
			os.Exit(12)
		}
		if err := stage.PreseedDB(w.DBPath(), sc.DB); err != nil {
			write(journalLine{Note: "harness: " + err.Error()})
			os.Exit(12)
		}
		cfgPath := filepath.Join(w.Dir, "fan2go.yaml")
		doc := spec.RawYAML
		if doc == "" {
			doc = sc.RawYAML
		}
		if doc == "" {
			doc = stage.ConfigYAML(sc, w)
		}
		doc = strings.ReplaceAll(doc, "@W@", w.Dir)
		debug.SetMaxStack(64 << 20)
		loaded := cfgPath
		switch spec.CfgLayout {
		case "symlink":
			loaded = filepath.Join(w.Dir, "real-fan2go.yaml")
			_ = os.Symlink(loaded, cfgPath)
		case "dotdot":
			etc := filepath.Join(w.Dir, "etc")
			_ = os.MkdirAll(filepath.Join(etc, "releases", "v1"), 0755)
			_ = os.Symlink(filepath.Join(etc, "releases", "v1"), filepath.Join(etc, "current"))
			loaded = filepath.Join(etc, "releases", "fan2go.yaml")
			_ = os.WriteFile(filepath.Join(etc, "fan2go.yaml"), []byte(doc), 0644) // the root-controlled decoy
			cfgPath = etc + "/current/../fan2go.yaml"                              // not filepath.Join: it would collapse the ".." lexically
		case "relative", "cwd":
			// the file is named relative to the working directory ("-c ./fan2go.yaml"), or found there by the
			// search path (no -c at all)
			if err := os.Chdir(w.Dir); err != nil {
				write(journalLine{Note: "harness: " + err.Error()})
				os.Exit(12)
			}
		}
		if err := os.WriteFile(loaded, []byte(doc), 0644); err == nil && spec.CfgMode != 0 {
			_ = os.Chown(loaded, spec.CfgUID, spec.CfgGID)
			_ = os.Chmod(loaded, os.FileMode(spec.CfgMode))
		}
		if _, err := os.Stat(loaded); err != nil {
			write(journalLine{Note: "harness: " + err.Error()})
			os.Exit(12)
		}
		w.Sampler = func(site, id string) any {
			switch site {
			case "ctl.cycle.end", "ctl.tick", "ctl.delay", "ctl.done":
			default:
				return nil
			}
			if _, ok := w.Fans[id]; !ok {
				return nil
			}
			s := &CycleSample{Pwm: w.FilePwm(id), Mode: w.FileMode(id)}
			if fan, ok := fans.GetFan(id); ok {
				s.MinPwm, s.StartPwm, s.MaxPwm = fan.GetMinPwm(), fan.GetStartPwm(), fan.GetMaxPwm()
				s.RpmAvg = fan.GetRpmAvg()
				if c, ok := curves.GetSpeedCurve(fan.GetCurveId()); ok {
					s.CurveVal = c.CurrentValue()
				}
			}
			return s
		}
		simhook.Install(w)
		k.AddConsumer(func(ev *kernel.Event) { write(journalLine{Ev: ev}) })
		// environment: signals and third parties
		for i := range sc.Env {
			e := sc.Env[i]
			name := fmt.Sprintf("%s#%d", e.Kind, i)
			fn := func() {
				ev := k.Current()
				switch e.Kind {
				case "signal":
					sig := os.Signal(syscall.SIGTERM)
					if e.Value == 2 {
						sig = os.Interrupt
					}
					n := w.DeliverSignal(sig)
					if ev != nil {
						ev.Val = n
						ev.Out = w.SignalPanic
					}
				case "db.hold":
					// another process (e.g. a fan2go CLI command) holds the database's file lock for a while
					if db, err := bolt.Open(w.DBPath(), 0600, &bolt.Options{Timeout: 10 * time.Millisecond}); err == nil {
						time.Sleep(time.Duration(e.Value) * time.Millisecond)
						_ = db.Close()
						if ev != nil {
							ev.Out = "held"
						}
					}
				case "3rd.mode":
					w.SetThirdParty(e.Fan, "mode", e.Value)
				case "3rd.pwm":
					w.SetThirdParty(e.Fan, "pwm", e.Value)
				}
			}
			if strings.HasPrefix(e.When, "restore:") {
				n, _ := strconv.Atoi(e.When[len("restore:"):])
				cnt := 0
				lastSeq := -1
				k.When(name, func(last *kernel.Event) bool {
					if last.Seq != lastSeq {
						lastSeq = last.Seq
						if last.Kind == "write" && last.Flags&kernel.FRestore != 0 {
							cnt++
						}
					}
					return cnt >= n
				}, fn)
			} else if e.AtSeq > 0 {
				k.AtSeq(e.AtSeq, name, fn)
			} else {
				k.At(e.At.D(), name, fn)
			}
		}
		args := append([]string{"fan2go", "-c", cfgPath, "--no-style", "--no-color"}, spec.Args...)
		switch spec.CfgLayout {
		case "relative":
			args[2] = "./fan2go.yaml"
		case "cwd":
			args = append([]string{"fan2go", "--no-style", "--no-color"}, spec.Args...)
		}
		if spec.DropToUID > 0 {
			os.Setenv("HOME", w.Dir)
			if err := syscall.Setgroups([]int{spec.DropToUID}); err != nil {
				write(journalLine{Note: "harness: setgroups: " + err.Error()})
				os.Exit(12)
			}
			if err := syscall.Setgid(spec.DropToUID); err != nil {
				write(journalLine{Note: "harness: setgid: " + err.Error()})
				os.Exit(12)
			}
			if err := syscall.Setuid(spec.DropToUID); err != nil {
				write(journalLine{Note: "harness: setuid: " + err.Error()})
				os.Exit(12)
			}
			write(journalLine{Note: fmt.Sprintf("running-as uid=%d euid=%d", os.Getuid(), os.Geteuid())})
		}
		k.Go("program", func() {
			os.Args = args
			cmd.Execute()
			write(journalLine{Note: "program-returned", T: k.Now()})
			k.Stop()
		})
		if spec.Sweep {
			scheduleCurveSweep(k, w, sc, write)
		}
		reason := k.Run(sc.Horizon.D())
		k.Finish()
		write(journalLine{Note: "end:" + reason, T: k.Now()})
		if w.SignalPanic != "" {
			write(journalLine{Note: "signal-delivery-panic: " + w.SignalPanic})
		}
		_ = jf.Sync()
		switch reason {
		case "stopped":
			os.Exit(0)
		case "halted":
			os.Exit(11)
		default:
			os.Exit(10)
		}
	})
}

// scheduleCurveSweep is defined by the C11 family.
var scheduleCurveSweep = func(k *kernel.Kernel, w *world.World, sc *world.Scenario, write func(journalLine)) {}
