package worker

import (
	"bufio"
	"bytes"
	"encoding/json"
	"fmt"
	"os"
	"os/exec"
	"path/filepath"
	"regexp"
	"strings"
	"syscall"
	"time"

	"github.com/markusressel/fan2go/zverif/check"
	"github.com/markusressel/fan2go/zverif/kernel"
	"github.com/markusressel/fan2go/zverif/world"
)

// childOut is what the parent learns about one incarnation.
type childOut struct {
	Events   []*kernel.Event
	Notes    []string
	ExitCode int
	Stderr   string
	Timeout  bool
	WorldDir string
	Stuck    string // the program is blocked for ever on a lock taken at this frame of its own code
	OutDir   string
	End      string // end:<reason> note ("" if the process died before)
	// panic classification
	PanicMsg  string
	PanicSite string // top repository frame of the panicking goroutine
	Harness   string
	UILog     string // what fan2go printed (tail)
}

var l2Counter int

// l2Dirs allocates the world and output directories of one L2 run.
func l2Dirs() (worldDir, outDir string) {
	l2Counter++
	base := filepath.Join(shmBase2(), fmt.Sprintf("verif-l2-%d-%d", os.Getpid(), l2Counter))
	_ = os.RemoveAll(base)
	worldDir, outDir = filepath.Join(base, "w"), filepath.Join(base, "out")
	_ = os.MkdirAll(worldDir, 0755)
	_ = os.MkdirAll(outDir, 0755)
	return
}

func l2Cleanup(worldDir string) {
	if os.Getenv("VERIF_KEEP") != "" {
		fmt.Fprintln(os.Stderr, "kept:", filepath.Dir(worldDir))
		return
	}
	_ = os.RemoveAll(filepath.Dir(worldDir))
}

func shmBase2() string {
	if st, err := os.Stat("/dev/shm"); err == nil && st.IsDir() {
		return "/dev/shm"
	}
	return os.TempDir()
}

var hexRe = regexp.MustCompile(`0x[0-9a-f]+`)

// classifyPanic extracts message and call site of a Go panic / fatal error from stderr.
func classifyPanic(se string) (msg, site string, harness bool) {
	idx := strings.LastIndex(se, "panic: ")
	if f := strings.LastIndex(se, "fatal error: "); f > idx {
		idx = f
	}
	if idx < 0 {
		return "", "", false
	}
	tail := se[idx:]
	msg = tail
	if i := strings.IndexByte(msg, '\n'); i > 0 {
		msg = msg[:i]
	}
	msg = hexRe.ReplaceAllString(msg, "0x?")
	if len(msg) > 200 {
		msg = msg[:200]
	}
	stack := tail
	if locs := goroutineRe.FindAllStringIndex(tail, 3); len(locs) >= 2 {
		stack = tail[locs[0][0]:locs[1][0]]
	}
	var frames []string
	for _, f := range repoFrameRe.FindAllString(stack, -1) {
		if strings.Contains(f, "/zverif/") || strings.Contains(f, "internal/simhook") {
			continue
		}
		frames = append(frames, strings.TrimSuffix(strings.TrimPrefix(f, "github.com/markusressel/fan2go/"), "("))
	}
	if len(frames) == 0 {
		return msg, "", true
	}
	site = frames[0]
	for _, f := range frames {
		if !strings.HasPrefix(f, "internal/ui.") {
			site = f
			break
		}
	}
	return msg, site, false
}

// stuckOnRepoLock looks through a goroutine dump for a goroutine that waits in sync.(*Mutex).Lock /
// (*RWMutex).Lock|RLock called directly from fan2go code (not from the harness or its hooks): with the
// journal silent for more than 30 s of real time this is a goroutine of the program blocked for ever.
// It returns the calling frame, or "".
func stuckOnRepoLock(dump string) string {
	for _, g := range strings.Split(dump, "\n\ngoroutine ") {
		lines := strings.Split(g, "\n")
		for i, l := range lines {
			if !(strings.HasPrefix(l, "sync.(*Mutex).Lock(") || strings.HasPrefix(l, "sync.(*RWMutex).Lock(") || strings.HasPrefix(l, "sync.(*RWMutex).RLock(")) {
				continue
			}
			// the next function line (every frame is two lines: function, then file:line)
			for j := i + 1; j < len(lines); j++ {
				f := strings.TrimSpace(lines[j])
				if f == "" || strings.HasPrefix(lines[j], "\t") || strings.HasPrefix(f, "sync.") {
					continue
				}
				if strings.HasPrefix(f, "github.com/markusressel/fan2go/internal/") && !strings.Contains(f, "/simhook.") && !strings.Contains(f, "/zverif/") {
					if k := strings.LastIndex(f, "("); k > 0 {
						f = f[:k]
					}
					return strings.TrimPrefix(f, "github.com/markusressel/fan2go/")
				}
				break
			}
		}
	}
	return ""
}

// runChild executes one incarnation in a child process of this test binary.
func runChild(spec *childSpec, timeout time.Duration) *childOut {
	out := &childOut{WorldDir: spec.WorldDir, OutDir: spec.OutDir}
	specPath := filepath.Join(spec.OutDir, "spec.json")
	b, _ := json.Marshal(spec)
	_ = os.WriteFile(specPath, b, 0644)
	_ = os.Remove(filepath.Join(spec.OutDir, "journal.jsonl"))
	cmd := exec.Command(os.Args[0], "-test.run", "^TestDaemonChild$", "-test.timeout", "0")
	cmd.Env = append(os.Environ(), "VERIF_L2_SPEC="+specPath)
	cmd.Env = append(cmd.Env, "VERIF_JOB=", "VERIF_FAMILY=")
	cmd.Env = append(cmd.Env, spec.Env...)
	var stderr bytes.Buffer
	cmd.Stderr = &stderr
	cmd.Stdout = nil
	if err := cmd.Start(); err != nil {
		out.Harness = "cannot start child: " + err.Error()
		return out
	}
	done := make(chan error, 1)
	go func() { done <- cmd.Wait() }()
	select {
	case err := <-done:
		if ee, ok := err.(*exec.ExitError); ok {
			out.ExitCode = ee.ExitCode()
		} else if err != nil {
			out.ExitCode = -1
		}
	case <-time.After(timeout):
		// how long has the journal been silent? (a child that is merely slow keeps writing)
		silent := time.Duration(0)
		if fi, err := os.Stat(filepath.Join(spec.OutDir, "journal.jsonl")); err == nil {
			silent = time.Since(fi.ModTime())
		}
		// ask the Go runtime for a goroutine dump before killing
		_ = cmd.Process.Signal(syscall.SIGQUIT)
		select {
		case <-done:
		case <-time.After(10 * time.Second):
			_ = cmd.Process.Kill()
			<-done
		}
		out.Timeout = true
		out.ExitCode = -9
		if silent > 30*time.Second {
			out.Stuck = stuckOnRepoLock(stderr.String())
		}
	}
	se := stderr.String()
	if len(se) > 1<<17 {
		se = se[len(se)-(1<<17):]
	}
	out.Stderr = se
	// journal
	if f, err := os.Open(filepath.Join(spec.OutDir, "journal.jsonl")); err == nil {
		sc := bufio.NewScanner(f)
		sc.Buffer(make([]byte, 1<<20), 16<<20)
		for sc.Scan() {
			line := sc.Bytes()
			var raw struct {
				Ev   json.RawMessage `json:"ev"`
				Note string          `json:"note"`
			}
			if json.Unmarshal(line, &raw) != nil {
				continue // a torn last line
			}
			if raw.Note != "" {
				out.Notes = append(out.Notes, raw.Note)
				if strings.HasPrefix(raw.Note, "end:") {
					out.End = raw.Note[4:]
				}
				if strings.HasPrefix(raw.Note, "harness:") {
					out.Harness = raw.Note
				}
			}
			if len(raw.Ev) > 0 {
				if ev, err := kernel.DecodeEvent(raw.Ev); err == nil {
					out.Events = append(out.Events, ev)
				}
			}
		}
		f.Close()
	}
	if b, err := os.ReadFile(filepath.Join(spec.OutDir, "ui.log")); err == nil {
		if len(b) > 1<<15 {
			b = b[len(b)-(1<<15):]
		}
		out.UILog = string(b)
	}
	if out.Timeout && out.Stuck == "" {
		out.Harness = "child watchdog expired"
	}
	if out.ExitCode == 12 {
		out.Harness = "child harness failure"
	}
	if msg, site, harness := classifyPanic(se); msg != "" {
		out.PanicMsg, out.PanicSite = msg, site
		if harness {
			out.Harness = "harness panic in child: " + msg
		}
	}
	return out
}

func (o *childOut) hasNote(prefix string) bool {
	for _, n := range o.Notes {
		if strings.HasPrefix(n, prefix) {
			return true
		}
	}
	return false
}

// cycleSampleOf decodes a journalled cycle sample.
func cycleSampleOf(ev *kernel.Event) *CycleSample {
	switch s := ev.Sample.(type) {
	case *CycleSample:
		return s
	case json.RawMessage:
		var cs CycleSample
		if json.Unmarshal(s, &cs) == nil {
			return &cs
		}
	}
	return nil
}

// accumulate folds one incarnation's statistics into the result.
func accumulate(res *check.Result, co *childOut) {
	res.Events += len(co.Events)
	if n := len(co.Events); n > 0 {
		res.VirtualSec += co.Events[n-1].T.Seconds()
	}
	h := res.Hash
	// the world directory carries the process id: the witness hashes paths relative to it
	rel := func(s string) string { return strings.ReplaceAll(s, filepath.Dir(co.WorldDir), "") }
	for _, ev := range co.Events {
		h = fmt.Sprintf("%016x", kernel.Hash64(0, h, fmt.Sprint(ev.Seq, ev.T, ev.Kind, rel(ev.Site), rel(ev.ID), ev.Val, rel(ev.Err), ev.Fault)))
		if ev.NParked > 1 {
			res.MultiCh++
		}
	}
	res.Hash = h
	ih := res.Interleave
	for _, ev := range co.Events {
		ih = fmt.Sprintf("%016x", kernel.Hash64(1, ih, ev.Kind, ev.Flags.String()))
	}
	res.Interleave = ih
	for _, ev := range co.Events {
		if ev.Fault != "" {
			res.Faults[ev.Fault]++
		}
		if ev.Kind == "env" && strings.HasPrefix(ev.Site, "signal") {
			res.Faults["signal"]++
		}
	}
}

var _ = world.IntP

var repoFrameRe = regexp.MustCompile(`github\.com/markusressel/fan2go/(?:internal|cmd)[^\s]*\(`)
var goroutineRe = regexp.MustCompile(`(?m)^goroutine \d+ `)

// stuckViolation reports a program that is blocked for ever on one of its own locks (see stuckOnRepoLock).
func stuckViolation(res *check.Result, prop string, co *childOut) bool {
	if co.Stuck == "" {
		return false
	}
	res.Violate(prop, "makes-progress", "makes-progress blocked-for-ever at "+co.Stuck, 0, nil,
		"the program stopped making progress: a goroutine waits for ever for a lock taken in %s (journal silent for more than 30 s, simulated time cannot advance)", co.Stuck)
	res.Nontrivial = true
	return true
}

// startupPhases classifies the PWM values written to a fan before its first control cycle WITHOUT looking at
// function names: the sweep of the PWM map is a run of writes a few milliseconds apart (>= 8 of them), the
// RPM-curve measurement writes are at least the fan response delay (>= 1 s in the scenarios that use this)
// apart. It returns the sweep writes, the measurement writes and the time span(s) covered by sweeps.
type startupPhase struct {
	Sweep, Measure int
	Spans          [][2]time.Duration // [first, last] write of every sweep run
}

func startupPhases(events []*kernel.Event, isFanPwmWrite func(ev *kernel.Event) bool, until time.Duration) startupPhase {
	var ts []time.Duration
	for _, ev := range events {
		if until > 0 && ev.T >= until {
			break
		}
		if ev.Flags&kernel.FRestore != 0 {
			continue // the hand-back after a failed start
		}
		if isFanPwmWrite(ev) {
			ts = append(ts, ev.T)
		}
	}
	var ph startupPhase
	const gap = 400 * time.Millisecond
	i := 0
	for i < len(ts) {
		j := i
		for j+1 < len(ts) && ts[j+1]-ts[j] < gap {
			j++
		}
		if n := j - i + 1; n >= 8 {
			ph.Sweep += n
			ph.Spans = append(ph.Spans, [2]time.Duration{ts[i], ts[j]})
		} else {
			ph.Measure += n
		}
		i = j + 1
	}
	return ph
}

// anyPwmWrite: a PWM value written to any fan of the scenario (file write or setPwm command).
func anyPwmWrite(ev *kernel.Event) bool {
	switch {
	case ev.Kind == "write" && !strings.HasSuffix(ev.Site, "_enable") && (strings.Contains(ev.Site, "/pwm") || strings.HasSuffix(ev.Site, ".pwm")):
		return true
	case ev.Kind == "yield" && ev.Site == "exec.start" && strings.Contains(ev.ID, "_setpwm"):
		return true
	}
	return false
}
