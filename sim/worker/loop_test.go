package worker

import (
	"encoding/json"
	"fmt"
	"math"
	"strings"
	"testing"
	"time"

	"github.com/markusressel/fan2go/zverif/check"
	"github.com/markusressel/fan2go/zverif/kernel"
	"github.com/markusressel/fan2go/zverif/refmodel"
	"github.com/markusressel/fan2go/zverif/stage"
	"github.com/markusressel/fan2go/zverif/world"
)

// Closed-loop L1 families: C01 (envelope), C02 (never-stop floor), C10 (stall
// liveness), C12 (nearest supported value, by-product).

type loopOpts struct {
	kinds         []string
	neverStopP    float64
	stallP        float64
	absurdTemps   bool
	faultP        float64
	identityOnly  bool // request observable as file content
	directOnly    bool
	fullRange     bool // no limits (C12)
	maxFans       int
	horizonLo     int
	horizonHi     int
	constCurve    bool // constant temperature (C10: request unchanged)
	rpmWin        []int
	neverSpinP    float64
	unreadableP   float64 // share of map-less fans whose PWM file can never be read
	rpmSideFaults bool    // third-party PWM writes and PWM read faults seen by the RPM monitor
	stableAlgos   bool    // only algorithms documented to settle (direct, rate-limited, default PID)
	freshP        float64 // share of hwmon fans with configured minimum and maximum that start without stored RPM curve (first start: analysis, then regulation)
	dropoutP      float64 // share of saturating fans whose stored RPM curve has a tachometer drop-out (0 = 0.12)
}

var absurdTemps = []int{-273000, -50000, -1, 0, 1, 19999, 20000, 20001, 35000, 50000, 64999, 79999, 80000, 80001, 120000, 2147483647, -2147483648, 9007199254740993, -9007199254740993}

func identityMap() map[int]int {
	m := map[int]int{}
	for i := 0; i <= 255; i++ {
		m[i] = i
	}
	return m
}

func genLoop(family string, seed uint64, tier string, o loopOpts) *world.Scenario {
	sc, r := baseScenario(family, seed)
	chip := addChip(sc, "simchip")
	if o.maxFans == 0 {
		o.maxFans = 2
	}
	nf := r.Range(1, o.maxFans)
	horizon := float64(r.Range(o.horizonLo, o.horizonHi))
	sc.Horizon = sec(horizon)
	if len(o.rpmWin) > 0 {
		sc.RpmWin = kernel.Pick(r, o.rpmWin...)
	}
	for i := 0; i < nf; i++ {
		var prog world.TempProg
		switch {
		case o.constCurve:
			cv := r.Range(0, 255)
			if kernel.NewRand(seed, fmt.Sprintf("loop.saturated.%d", i)).Bool(0.2) {
				cv = 255 // a saturated curve (hot machine) is an everyday state, not a 1-in-256 draw
			}
			prog = constTemp(tempForCurve(cv))
		case o.absurdTemps && r.Bool(0.6):
			prog = world.TempProg{Kind: "steps", Base: kernel.Pick(r, absurdTemps...)}
			t := 3.0
			for t < horizon {
				t += 0.3 + r.Float()*4
				prog.Steps = append(prog.Steps, world.TempStep{T: sec(t), V: kernel.Pick(r, absurdTemps...)})
			}
		default:
			prog = world.TempProg{Kind: "steps", Base: tempForCurve(r.Range(0, 255))}
			t := 4.0
			for t < horizon {
				t += 0.5 + r.Float()*6
				prog.Steps = append(prog.Steps, world.TempStep{T: sec(t), V: tempForCurve(r.Range(-20, 275))})
			}
		}
		kind := kernel.Pick(r, o.kinds...)
		skind := kernel.Pick(r, "hwmon", "file")
		if kind == "cmd" && r.Bool(0.3) {
			skind = "cmd"
		}
		_, cid := addSensorCurve(sc, r, i, skind, prog, chip)
		f := world.FanSpec{ID: fmt.Sprintf("f%d", i), Kind: kind, Curve: cid, Chip: chip, Channel: i + 1}
		f.Plant = defaultPlant(r)
		f.Driver = world.DriverSpec{InitMode: kernel.Pick(r, 0, 1, 2, 2, 5), InitPwm: r.Range(0, 255), AutoPwm: 120}
		f.NeverStop = r.Bool(o.neverStopP)
		// algorithm
		switch {
		case o.directOnly:
			f.Algo = world.AlgoSpec{Kind: "direct"}
		case o.stableAlgos:
			switch r.Intn(3) {
			case 0:
				f.Algo = world.AlgoSpec{Kind: "direct"}
			case 1:
				f.Algo = world.AlgoSpec{Kind: "direct", MaxChange: world.IntP(kernel.Pick(r, 1, 2, 5, 10, 40, 255))}
			default:
				f.Algo = world.AlgoSpec{Kind: ""}
			}
		default:
			switch r.Intn(5) {
			case 0:
				f.Algo = world.AlgoSpec{Kind: "direct"}
			case 1:
				f.Algo = world.AlgoSpec{Kind: "direct", MaxChange: world.IntP(kernel.Pick(r, 1, 2, 5, 10, 40, 255))}
			case 2:
				f.Algo = world.AlgoSpec{Kind: ""} // default PID
			case 3:
				f.Algo = world.AlgoSpec{Kind: "pid", P: 0.3, I: 0.02, D: 0.005}
			default:
				f.Algo = world.AlgoSpec{Kind: "pid", P: (r.Float()*4 - 2) * kernel.Pick(r, 1.0, 1.0, 50.0), I: r.Float()*2 - 1, D: (r.Float() - 0.5) * kernel.Pick(r, 1.0, 0.01, 100.0)}
			}
		}
		// limits
		curveStart, curveMaxEff := f.Plant.StartThr, 255
		if r.Bool(0.4) && !o.fullRange {
			curveMaxEff = r.Range(150, 255)
			f.Plant.MaxEff = curveMaxEff
		}
		if kind == "hwmon" && !o.fullRange {
			switch r.Intn(4) {
			case 0: // measured only
			case 1:
				lo := r.Range(0, 120)
				hi := r.Range(lo, 255)
				if r.Bool(0.15) {
					hi = lo
				}
				f.MinPwm, f.MaxPwm = world.IntP(lo), world.IntP(hi)
			case 2:
				f.MaxPwm = world.IntP(r.Range(curveStart, 255))
			default:
				f.MinPwm = world.IntP(r.Range(0, curveMaxEff))
			}
		}
		// PWM map
		mk := r.Intn(5)
		if o.identityOnly {
			mk = r.Intn(2)
		}
		switch mk {
		case 0: // identity given in the configuration (no sweep)
			m := identityMap()
			f.PwmMap = &m
		case 1: // identity discovered by the sweep
		case 2: // sparse increasing user map
			m := map[int]int{}
			n := r.Range(1, 10)
			keys := map[int]bool{}
			for j := 0; j < n; j++ {
				keys[r.Range(0, 255)] = true
			}
			var ks []int
			for k := range keys {
				ks = append(ks, k)
			}
			sortInts(ks)
			prev := -1
			for _, k := range ks {
				v := k + r.Range(-10, 10)
				if v <= prev {
					v = prev + 1
				}
				if v > 255 {
					v = 255
				}
				if v < 0 {
					v = 0
				}
				if r.Bool(0.2) && prev >= 0 {
					v = prev // plateau: equal outputs
				}
				m[k] = v
				prev = v
			}
			f.PwmMap = &m
		case 4: // dense user map with an offset and a slope (a fan that needs 60 to move at all)
			m := map[int]int{}
			a, b := r.Range(0, 90), r.Range(2, 4)
			for k := 0; k <= 255; k++ {
				v := a + b*k/4
				if v > 255 {
					v = 255
				}
				m[k] = v
			}
			f.PwmMap = &m
		case 3: // quantising driver, discovered by the sweep
			if r.Bool(0.5) {
				f.Driver.Quant, f.Driver.K = "mult", kernel.Pick(r, 2, 5, 16, 51, 85)
			} else {
				f.Driver.Quant = "levels"
				f.Driver.Levels = kernel.Pick(r, []int{0, 128, 255}, []int{0, 64, 128, 192, 255}, []int{30, 255}, []int{0, 85, 170, 255})
			}
			f.Driver.InitPwm = world.Quantise(&f.Driver, f.Driver.InitPwm)
		}
		if kind != "hwmon" {
			f.Driver.NoEnable = true
			if r.Bool(0.2) {
				f.Plant.NoRpm = true
			}
			if kind == "file" && !f.Plant.NoRpm && kernel.NewRand(seed, "loop.homerpm."+f.ID).Bool(0.3) {
				f.HomeRelRpm = true // rpmPath: ~/... (the tachometer file lives below the user's home directory)
			}
		} else if r.Bool(0.15) {
			f.Driver.NoEnable = true
		}
		// plant faults
		if r.Bool(o.neverSpinP) {
			f.Plant.NeverSpin = true
			f.Plant.InitRpm = 0
		} else if r.Bool(o.stallP) {
			t := 6 + r.Float()*(horizon-8)
			ns := r.Range(1, 2)
			for j := 0; j < ns; j++ {
				d := 2 + r.Float()*20
				iv := world.Interval{From: sec(t), To: sec(t + d)}
				if r.Bool(0.3) {
					iv.To = 0
				}
				f.Plant.Stalls = append(f.Plant.Stalls, iv)
				t += d + 2 + r.Float()*10
				if iv.To == 0 {
					break
				}
			}
		}
		fresh := false
		if fr := kernel.NewRand(seed, "loop.fresh."+f.ID); kind == "hwmon" && o.freshP > 0 && f.MinPwm != nil && f.MaxPwm != nil && f.StartPwm == nil && fr.Bool(o.freshP) {
			// the very first start of this fan: nothing stored, the RPM curve is measured (in virtual time) before
			// regulation begins; its limits are the configured ones whatever the measurement finds
			fresh = true
			f.Plant.Stalls = nil
			steps := 256
			switch {
			case f.Driver.Quant == "" && f.PwmMap == nil && !o.identityOnly:
				// (a quantising driver keeps most of these analyses short)
				f.Driver.Quant, f.Driver.K = "mult", kernel.Pick(fr, 8, 16, 32)
				f.Driver.InitPwm = world.Quantise(&f.Driver, f.Driver.InitPwm)
				steps = 256 / f.Driver.K
			case f.Driver.Quant == "mult":
				steps = 256 / f.Driver.K
			case f.Driver.Quant == "levels":
				steps = len(f.Driver.Levels)
			}
			extra := sec(40 + float64(steps)*3 + float64(f.Plant.TauMs)/100)
			sc.Horizon += extra
			for j := range sc.Sensors[i].Prog.Steps {
				sc.Sensors[i].Prog.Steps[j].T += extra // the temperature programme plays during regulation
			}
		}
		if kind == "hwmon" && !fresh {
			data := linearRpmCurve(curveStart, curveMaxEff, f.Plant.MaxRpm)
			if dr := kernel.NewRand(seed, "loop.dropout."+f.ID); curveMaxEff < 250 && dr.Bool(max(o.dropoutP, 0.12)) {
				// the stored RPM curve has a tachometer drop-out on its plateau: one sample above the PWM that
				// reaches the highest RPM reads 0 (limits are unaffected: lowest PWM with RPM > 0, lowest PWM
				// reaching the highest RPM)
				data[dr.Range(curveMaxEff+1, 255)] = 0
			}
			preseedRpmCurve(sc, f.ID, data)
		}
		if ur := kernel.NewRand(seed, "loop.unreadable."+f.ID); o.unreadableP > 0 && f.PwmMap == nil && f.Driver.Quant == "" && kind != "cmd" && ur.Bool(o.unreadableP) {
			// a fan whose PWM value can never be read back (every read of the file fails): fan2go builds its
			// default 1:1 map for it and works with the value it believes to have set
			sc.Faults = append(sc.Faults, world.FaultSpec{Op: "read", Target: "fan:" + f.ID + ":pwm", Nth: 0, Count: 1 << 30, Kind: "eio"})
		}
		if f.PwmMap != nil && kernel.NewRand(seed, "loop.stalemap."+f.ID).Bool(0.3) {
			// the database still holds a PWM map of this fan from an earlier run (before the user wrote a
			// pwmMap into the configuration): another map than the configured one, which is the one in force
			stale := map[int]int{}
			for k := 0; k <= 255; k++ {
				stale[k] = min(255, k+9)
			}
			b, _ := json.Marshal(stale)
			sc.DB = append(sc.DB, world.DBEntry{Bucket: "fanPwmMap", Key: f.ID, Value: string(b)})
		}
		sc.Fans = append(sc.Fans, f)
		// faults during regulation only
		if o.faultP > 0 && r.Bool(o.faultP) {
			nfault := r.Range(1, 4)
			for j := 0; j < nfault; j++ {
				switch r.Intn(5) {
				case 4:
					// the mode attribute refuses every write for a cycle or a few while the PWM attribute works
					sc.Faults = append(sc.Faults, world.FaultSpec{Op: "write", Target: "fan:" + f.ID + ":enable", Nth: r.Range(0, 40), Count: kernel.Pick(r, 2, 4, 8, 40), Kind: kernel.Pick(r, "ebusy", "error", "einval"), OnlyFlags: "upd"})
				case 0:
					sc.Faults = append(sc.Faults, world.FaultSpec{Op: "read", Target: "fan:" + f.ID + ":pwm", Nth: r.Range(0, 80), Count: r.Range(1, 3), Kind: kernel.Pick(r, "eio", "ebusy", "eagain", "garbage", "empty", "missing", "huge", "negative", "value:999", "value:-7"), OnlyFlags: "upd"})
				case 1:
					sc.Faults = append(sc.Faults, world.FaultSpec{Op: "read", Target: "fan:" + f.ID + ":rpm", Nth: r.Range(0, 30), Count: r.Range(1, 3), Kind: kernel.Pick(r, "eio", "garbage", "empty", "missing", "negative", "value:99999999"), OnlyFlags: "rpm"})
				case 2:
					sc.Faults = append(sc.Faults, world.FaultSpec{Op: "write", Target: "fan:" + f.ID + ":pwm", Nth: r.Range(0, 40), Count: r.Range(1, 3), Kind: kernel.Pick(r, "error", "ebusy", "ignored"), OnlyFlags: "upd"})
				default:
					sc.Faults = append(sc.Faults, world.FaultSpec{Op: "read", Target: "sensor:" + sc.Sensors[i].ID, Nth: r.Range(10, 200), Count: r.Range(1, 5), Kind: kernel.Pick(r, "eio", "garbage", "empty", "missing"), OnlyFlags: "mon"})
				}
			}
			if kind == "cmd" {
				sc.Faults = nil // cmd fans take exec faults in their own families
			}
		}
	}
	if o.rpmSideFaults {
		// what the RPM monitor sees between two control cycles: a third party lowering the PWM of a
		// spinning fan, and failing / absurd reads of the PWM file in the monitor's own sample
		rr := kernel.NewRand(seed, "loop.rpmside")
		for i := range sc.Fans {
			f := &sc.Fans[i]
			if f.Kind == "cmd" {
				continue
			}
			n := rr.Range(1, 5)
			for j := 0; j < n; j++ {
				at := 3 + rr.Float()*(horizon-4)
				if f.PwmMap == nil {
					at = 0.4*horizon + rr.Float()*(0.6*horizon-1) // leave the start-up sweep alone most of the time
				}
				v := rr.Range(0, 60)
				if rr.Bool(0.3) {
					v = rr.Range(0, 255)
				}
				sc.Env = append(sc.Env, world.EnvEvent{Kind: "3rd.pwm", Fan: f.ID, Value: v, At: sec(at)})
			}
			if rr.Bool(0.6) {
				sc.Faults = append(sc.Faults, world.FaultSpec{Op: "read", Target: "fan:" + f.ID + ":pwm", Nth: rr.Range(0, 40), Count: rr.Range(1, 3),
					Kind: kernel.Pick(rr, "eio", "garbage", "empty", "missing", "value:0", "value:1", "value:3", "negative"), OnlyFlags: "rpm"})
			}
		}
	}
	if r.Bool(0.15) {
		sc.SlowP, sc.SlowMx = 0.02, sec(1.5)
	}
	return sc
}

func sortInts(a []int) {
	for i := 1; i < len(a); i++ {
		for j := i; j > 0 && a[j] < a[j-1]; j-- {
			a[j], a[j-1] = a[j-1], a[j]
		}
	}
}

// refFanLimits computes the reference floor / ceiling of requests for a fan
// (C01/C02): hwmon: configured value, else derived from the attached curve data.
func refFanLimits(f *world.FanSpec, curve map[int]float64) (lo, hi int) {
	if f.Kind != "hwmon" {
		return 0, 255
	}
	start, max, ok := refmodel.Limits(curve)
	if !ok {
		start, max = 255, 255
	}
	if start < 0 {
		start = 255
	}
	hi = max
	if f.MaxPwm != nil {
		hi = *f.MaxPwm
	}
	lo = 0
	if f.NeverStop {
		lo = start
		if f.MinPwm != nil {
			lo = *f.MinPwm
		}
	}
	return lo, hi
}

// mapInForce is the reference PWM map of a fan: the configuration override,
// else what the driver returns for each swept value.
func mapInForce(f *world.FanSpec) map[int]int {
	if f.PwmMap != nil {
		return *f.PwmMap
	}
	m := map[int]int{}
	for i := 0; i <= 255; i++ {
		m[i] = world.Quantise(&f.Driver, i)
	}
	return m
}

func seededCurve(sc *world.Scenario, id string) map[int]float64 {
	for _, e := range sc.DB {
		if e.Bucket == "fans" && e.Key == id {
			m := map[int]float64{}
			if err := jsonUnmarshal(e.Value, &m); err == nil {
				return m
			}
		}
	}
	return nil
}

type loopOracle struct {
	st    *stage.Stage
	res   *check.Result
	ct    *CycleTracker
	props map[string]bool
	fans  map[string]*loopFan
}

type pendingViolation struct {
	seq int
	t   time.Duration
	msg string
}

type loopFan struct {
	unreadable   bool   // the PWM file of this fan can never be read (by the scenario's fault plan)
	prevClean    *Cycle // previous cycle if it was observable
	obsRaises    int    // raises seen in the request sequence itself
	polluted     bool
	lastWriteSeq int // sequence number of the last regulating write that reached the file
	envSeq       int // sequence number of the last third-party interference with this fan
	spec         *world.FanSpec
	m            map[int]int
	lo, hi       int
	allowed      map[int]bool
	cycles       int
	prev         *Cycle
	floorMax     int // highest GetMinPwm seen
	raises       int
	// C10
	zeroSince           int // rpm polls with 0 since the current stall episode began (-1: not stalled)
	pollsAtZero         int
	lastReq             int
	reqStable           bool
	stalledErr          bool
	identity            bool
	polls               int
	lastRaiseAt         int
	episode             bool
	restored            bool
	atMaxZero           int // RPM polls at 0 while the request sits at the maximum
	maxReported         bool
	pendingBlind        *pendingViolation
	pollAttempts        int           // RPM polls of any outcome
	lastPollT           time.Duration // time of the last one
	firstCycT, lastCycT time.Duration // first and last regulation cycle
}

func newLoopOracle(st *stage.Stage, res *check.Result, props ...string) *loopOracle {
	o := &loopOracle{st: st, res: res, ct: NewCycleTracker(st), props: map[string]bool{}, fans: map[string]*loopFan{}}
	for _, p := range props {
		o.props[p] = true
	}
	for i := range st.Sc.Fans {
		f := &st.Sc.Fans[i]
		lf := &loopFan{spec: f, m: mapInForce(f), zeroSince: -1}
		for _, ft := range st.Sc.Faults {
			if ft.Op == "read" && ft.Target == "fan:"+f.ID+":pwm" && ft.Count >= 1<<20 {
				lf.unreadable = true
			}
		}
		lf.lo, lf.hi = refFanLimits(f, seededCurve(st.Sc, f.ID))
		lf.allowed = refmodel.AllowedWrites(lf.m, lf.lo, lf.hi)
		lf.identity = true
		for k, v := range lf.m {
			if k != v {
				lf.identity = false
			}
		}
		if len(lf.m) != 256 {
			lf.identity = false
		}
		o.fans[f.ID] = lf
	}
	o.ct.OnCycle = o.onCycle
	o.ct.OnWrite = o.onWrite
	return o
}

func (o *loopOracle) sig(lf *loopFan) string {
	return fmt.Sprintf("fan=%s algo=%s map=%s neverStop=%v limits=%s", lf.spec.Kind, algoName(lf.spec), mapKind(lf.spec), lf.spec.NeverStop, limitKind(lf.spec))
}

func limitKind(f *world.FanSpec) string {
	switch {
	case f.MinPwm != nil && f.MaxPwm != nil:
		return "cfg-min+max"
	case f.MinPwm != nil:
		return "cfg-min"
	case f.MaxPwm != nil:
		return "cfg-max"
	}
	return "measured"
}

func (o *loopOracle) onWrite(fan string, ev *kernel.Event, value int) {
	lf := o.fans[fan]
	if lf != nil && ev.Flags&kernel.FRestore != 0 {
		lf.restored = true
	}
	if lf == nil || ev.Flags&kernel.FUpdate == 0 {
		return
	}
	o.res.Probe("regulating-writes")
	if ev.Err == "" && ev.Fault == "" {
		lf.lastWriteSeq = ev.Seq
	}
	if o.props["C01"] {
		if value < 0 || value > 255 {
			o.res.Violate("C01", "range-0-255", "range-0-255 "+o.sig(lf), ev.Seq, ev.T, "fan %s: regulating write of %d outside 0..255", fan, value)
		} else if !lf.allowed[value] {
			o.res.Violate("C01", "envelope", "envelope "+o.sig(lf), ev.Seq, ev.T,
				"fan %s: regulating write of %d is not the map output of any request in [%d,%d] (map %s, %d supported inputs)", fan, value, lf.lo, lf.hi, mapKind(lf.spec), len(refmodel.SupportedInputs(lf.m)))
		}
		if value == lf.m[refmodel.Nearest(refmodel.SupportedInputs(lf.m), lf.lo)[0]] {
			o.res.Probe("write-at-floor")
		}
		if value == lf.m[refmodel.Nearest(refmodel.SupportedInputs(lf.m), lf.hi)[0]] {
			o.res.Probe("write-at-ceiling")
		}
	}
}

func (o *loopOracle) onCycle(c *Cycle) {
	lf := o.fans[c.Fan]
	if lf == nil || c.After == nil {
		return
	}
	lf.cycles++
	if pv := lf.pendingBlind; pv != nil {
		lf.pendingBlind = nil
		o.res.Violate("C12", "skip", "skip blind map="+mapKind(lf.spec), pv.seq, pv.t, "%s", pv.msg)
	}
	if lf.cycles == 1 {
		lf.firstCycT = c.EndT
	}
	lf.lastCycT = c.EndT
	res := o.res
	if lf.cycles == 1 && lf.spec.Kind == "hwmon" && seededCurve(o.st.Sc, c.Fan) == nil {
		res.Probe("first-start-fans-regulating(no stored RPM curve)")
	}
	// the request is observable when the fan reads back what was written through an identity map
	observable := lf.identity && lf.spec.Driver.Quant == "" && !lf.spec.Driver.IgnoreWrites
	faulty := false
	// blind: reads of the PWM value in this cycle ended in an error (and nothing else is wrong with the cycle: no
	// lying read, no write fault, no third party): fan2go has seen no value of its own that would justify not
	// writing - unless the fan does show an acceptable value, which is what is judged
	blind := false
	lying := false
	for _, w := range c.Writes {
		if w.Err != "" || w.Fault != "" {
			faulty, lying = true, true
		}
	}
	for _, rd := range c.PwmReads {
		if (rd.Err != "" || rd.Fault != "") && !lf.unreadable {
			faulty = true
		}
		if rd.Err != "" && !lf.unreadable {
			blind = true
		} else if rd.Fault != "" {
			lying = true
		}
	}
	if lf.envSeq > lf.lastWriteSeq || lf.polluted {
		// a third party wrote the file after fan2go's last regulating write: it no longer shows the request
		faulty, lying = true, true
	}
	if lying {
		blind = false
	}
	req := c.After.Pwm
	if blind {
		res.Probe("blind-cycles(PWM reads failed)")
	}
	if o.props["C12"] && directNoLimit(lf.spec) && (!faulty || blind) && c.After.Raises == 0 && lf.obsRaises == 0 {
		// the direct algorithm: on a full-range fan the request equals the curve value; on a fan with limits it
		// is the curve value rescaled into [min,max] (taken within one step, the rescale's rounding is C04's)
		x := c.After.CurveVal
		full := lf.lo == 0 && lf.hi == 255
		want := refmodel.WritesFor(lf.m, x)
		if !full {
			x = lf.lo + int((float64(c.After.CurveVal)/255.0)*(float64(lf.hi)-float64(lf.lo)))
			want = map[int]bool{}
			for _, xi := range []int{x - 1, x, x + 1} {
				if xi >= lf.lo && xi <= lf.hi {
					for v := range refmodel.WritesFor(lf.m, xi) {
						want[v] = true
					}
				}
			}
			res.Probe("c12-cycles-judged(fan with limits)")
		}
		res.Probe("c12-cycles-judged")
		if len(c.Writes) > 0 {
			w := c.Writes[len(c.Writes)-1]
			if !want[w.Value] {
				res.Violate("C12", "nearest", "nearest map="+mapKind(lf.spec)+" limits="+b2s(!full), w.Seq, c.EndT, "fan %s (limits %d..%d): request %d wrote %d, nearest supported input(s) %v map to %v", c.Fan, lf.lo, lf.hi, x, w.Value, refmodel.Nearest(refmodel.SupportedInputs(lf.m), x), keysOf(want))
			}
			if _, ok := lf.m[x]; full && ok && contains(refmodel.SupportedInputs(lf.m), x) && w.Value != lf.m[x] {
				res.Violate("C12", "exact", "exact map="+mapKind(lf.spec), w.Seq, c.EndT, "fan %s: request %d is a supported input but %d was written instead of %d", c.Fan, x, w.Value, lf.m[x])
			}
			res.Probe("c12-writes-judged")
			if len(want) == 2 {
				res.Probe("c12-tie")
			}
		} else if c.Before != nil {
			// no write is only right when the fan already showed an acceptable value
			if !want[world.Quantise(&lf.spec.Driver, c.Before.Pwm)] && !want[c.After.Pwm] {
				msg := fmt.Sprintf("fan %s: request %d, no write although the fan showed %d and acceptable values are %v", c.Fan, x, c.After.Pwm, keysOf(want))
				if blind {
					// (a failed read may also be a control error that ends regulation: judged when the next cycle
					// of this fan shows that regulation went on)
					lf.pendingBlind = &pendingViolation{seq: c.EndPSeq, t: c.EndT, msg: msg + " (PWM reads of the cycle had failed - no read of this cycle showed fan2go an acceptable value - and regulation went on)"}
				} else {
					res.Violate("C12", "skip", "skip map="+mapKind(lf.spec), c.EndPSeq, c.EndT, "%s", msg)
				}
			}
			res.Probe("c12-skips-judged")
		}
	}
	if o.props["C02"] && lf.spec.NeverStop && observable && !faulty {
		sig := o.sig(lf)
		if req < lf.lo {
			res.Violate("C02", "floor", "floor "+sig+" raises="+b2s(c.After.Raises > 0), c.EndPSeq, c.EndT,
				"fan %s: request %d below the minimum %d (cycle #%d, raises so far %d)", c.Fan, req, lf.lo, c.Index, c.After.Raises)
		}
		if c.After.Raises > lf.raises && lf.prev != nil && lf.prev.After != nil {
			res.Probe("raise")
			if lf.lo > 1 {
				res.Probe("raise-with-min>1")
			}
			if !(req > lf.prev.After.Pwm) {
				res.Violate("C02", "raise-strict", "raise-strict "+sig, c.EndPSeq, c.EndT,
					"fan %s: minimum raised in cycle #%d but the request went %d → %d (must be strictly higher)", c.Fan, c.Index, lf.prev.After.Pwm, req)
			}
		}
		if c.After.Raises > 0 && req < lf.lo+c.After.Raises {
			res.Violate("C02", "raise-permanent", "raise-permanent "+sig, c.EndPSeq, c.EndT,
				"fan %s: after %d raise(s) of minimum %d the request is %d (cycle #%d)", c.Fan, c.After.Raises, lf.lo, req, c.Index)
		}
		if c.After.MinPwm < lf.floorMax {
			res.Violate("C02", "min-never-drops", "min-never-drops "+sig, c.EndPSeq, c.EndT,
				"fan %s: reported minimum dropped from %d to %d (cycle #%d)", c.Fan, lf.floorMax, c.After.MinPwm, c.Index)
		}
		// raises as they show in the requests themselves (not fan2go's own counter): with the plain direct
		// algorithm the request is a function of curve value and minimum, so a request one higher than the
		// previous one at an unchanged curve value is a raise - and it is permanent like any other
		if directNoLimit(lf.spec) {
			if p := lf.prevClean; p != nil && p.Index == c.Index-1 && p.After.CurveVal == c.After.CurveVal && req == p.After.Pwm+1 {
				lf.obsRaises++
				res.Probe("raise-observed-in-requests")
			}
			if lf.obsRaises > 0 && req < lf.lo+lf.obsRaises {
				res.Violate("C02", "raise-permanent", "raise-permanent(observed) "+sig, c.EndPSeq, c.EndT,
					"fan %s: the requests show %d raise(s) of minimum %d (fan2go counts %d), yet the request is %d (cycle #%d)", c.Fan, lf.obsRaises, lf.lo, c.After.Raises, req, c.Index)
			}
		}
	}
	if faulty {
		lf.prevClean = nil
	} else {
		lf.prevClean = c
	}
	if c.After.MinPwm > lf.floorMax {
		lf.floorMax = c.After.MinPwm
	}
	raisedNow := c.After.Raises > lf.raises
	lf.reqStable = lf.prev != nil && lf.prev.After != nil && lf.prev.After.Pwm == req
	if raisedNow {
		lf.raises = c.After.Raises
		lf.lastRaiseAt = lf.polls
		lf.pollsAtZero = 0
	} else if !lf.reqStable {
		// the request moved for another reason than a raise: the premise
		// "request unchanged" starts over
		lf.pollsAtZero = 0
	}
	if req < lf.hi {
		// at or beyond the maximum neither a "raise" nor a moving request is progress any more: what is
		// left to do there is to report the stall and hand the fan back
		lf.atMaxZero = 0
	}
	lf.lastReq = req
	lf.prev = c
	res.State(fmt.Sprintf("%s|%s|%s|ns=%v|raises=%d|atmax=%v", lf.spec.Kind, algoName(lf.spec), mapKind(lf.spec), lf.spec.NeverStop, min(c.After.Raises, 3), req >= lf.hi))
}

func b2s(b bool) string {
	if b {
		return "yes"
	}
	return "no"
}

func keysOf(m map[int]bool) []int {
	var ks []int
	for k := range m {
		ks = append(ks, k)
	}
	sortInts(ks)
	return ks
}

func contains(a []int, x int) bool {
	for _, v := range a {
		if v == x {
			return true
		}
	}
	return false
}

func (o *loopOracle) OnEvent(ev *kernel.Event) {
	if ev.Kind == "env" && strings.HasPrefix(ev.Site, "3rd.") {
		if lf := o.fans[ev.ID]; lf != nil {
			lf.envSeq = ev.Seq
			if lf.cycles == 0 {
				// interference with the start-up analysis (PWM map sweep): the map in force is no
				// longer the reference map, so requests of this fan are not observable in this run
				lf.polluted = true
				o.res.Probe("third-party-during-startup(fan not judged)")
			}
			o.res.Probe("third-party-interference")
		}
	}
	o.ct.OnEvent(ev)
	if !o.props["C10"] {
		return
	}
	// RPM polls: reads of the rpm input issued by the RPM monitor
	var fan string
	var val int
	var ok bool
	if ev.Kind == "read" && ev.Flags&kernel.FMeasureRpm != 0 {
		if tg := o.st.W.TargetOfPath(ev.Site); tg != nil && tg.Role == "rpm" {
			fan, val, ok = tg.ID, ev.Val, ev.Err == ""
		}
	} else if ev.Kind == "yield" && ev.Site == "exec.start" && ev.Flags&kernel.FMeasureRpm != 0 {
		if tg := o.st.W.TargetOfExe(ev.ID); tg != nil && tg.Role == "getrpm" {
			fan = tg.ID
			_, err := fmt.Sscanf(ev.Out, "%d", &val)
			ok = err == nil && ev.Err == ""
		}
	}
	if fan == "" {
		return
	}
	lf := o.fans[fan]
	if lf != nil {
		lf.pollAttempts++
		lf.lastPollT = ev.T
	}
	if lf == nil || !lf.spec.NeverStop || !ok {
		return
	}
	lf.polls++
	if lf.restored {
		return // regulation of this fan has stopped: nothing more to expect
	}
	// the premise "request unchanged" must be observable: identity read-back, or the
	// plain direct algorithm over a constant curve value (its request is constant by construction)
	identityRB := lf.identity && lf.spec.Driver.Quant == "" && !lf.spec.Driver.IgnoreWrites
	if !identityRB && !directNoLimit(lf.spec) {
		return
	}
	if val != 0 {
		lf.pollsAtZero = 0
		lf.episode = false
		return
	}
	// 0 RPM while regulating
	if lf.cycles == 0 {
		return
	}
	if !lf.episode {
		lf.episode = true
		o.res.Probe("stall-episode")
	}
	lf.pollsAtZero++
	bound := 20*o.st.Sc.RpmWin + 20
	if identityRB && lf.lastReq >= lf.hi && !lf.restored {
		lf.atMaxZero++
		if lf.atMaxZero > bound && !lf.maxReported {
			lf.maxReported = true
			o.res.Violate("C10", "stall-at-max-reported", fmt.Sprintf("stall-at-max-reported fan=%s", lf.spec.Kind), ev.Seq, ev.T,
				"fan %s: request at the maximum %d and %d consecutive RPM polls read 0, yet fan2go keeps regulating (no error, no restore)", fan, lf.hi, lf.atMaxZero)
		}
	}
	// cycles must run at least as often as polls for the bound to be meaningful; the
	// generator keeps tick <= rpm poll period
	if lf.pollsAtZero > bound && !lf.stalledErr && (!identityRB || lf.lastReq < lf.hi) {
		lf.stalledErr = true // report once per fan
		o.res.Violate("C10", "raise-within-bound", fmt.Sprintf("raise-within-bound fan=%s priorRaises=%s", lf.spec.Kind, b2s(lf.raises > 0)), ev.Seq, ev.T,
			"fan %s: %d consecutive RPM polls read 0 (window %d, bound %d) since the last raise/rotation and the request is still %d (< max %d); raises so far %d",
			fan, lf.pollsAtZero, o.st.Sc.RpmWin, bound, lf.lastReq, lf.hi, lf.raises)
	}
}

func (o *loopOracle) Finish(st *stage.Stage, res *check.Result) {
	total := 0
	for _, lf := range o.fans {
		total += lf.cycles
	}
	res.ProbeN("cycles", total)
	if total == 0 && st.BootErr == nil && !st.HarnessDriven {
		// e.g. slow I/O stretched the start-up sweep beyond the horizon: nothing to judge
		res.Probe("no-control-cycle-within-horizon(unjudged)")
	}
	if o.props["C10"] {
		for id, lf := range o.fans {
			if !lf.spec.NeverStop {
				continue
			}
			// a fan with a tachometer whose rotor was blocked for many RPM polling periods while it was being
			// regulated, and whose tachometer fan2go never polled at all: no number of polls bounds that stall
			if fs := st.W.Fans[id]; fs != nil && fs.RpmPath != "" && lf.cycles >= 10 {
				// ... counted from the last time fan2go did read the tachometer (from the first cycle if it never did)
				since := max(lf.firstCycT, lf.lastPollT)
				blocked := time.Duration(0)
				for _, iv := range lf.spec.Plant.Stalls {
					from, to := iv.From.D(), iv.To.D()
					if to == 0 || to > lf.lastCycT {
						to = lf.lastCycT
					}
					if from < since {
						from = since
					}
					if to > from {
						blocked += to - from
					}
				}
				if lf.spec.Plant.NeverSpin {
					blocked = lf.lastCycT - since
				}
				if need := 10*st.Sc.RpmPoll.D() + 10*time.Second; blocked > need {
					res.Violate("C10", "raise-within-bound", "raise-within-bound tachometer-not-polled fan="+lf.spec.Kind, 0, nil,
						"fan %s has a tachometer and its rotor was blocked for the last %s of its regulation (rpmPollingRate %s), yet fan2go did not read the tachometer once in that time (%d reads before): the stall can not be noticed", id, blocked, st.Sc.RpmPoll.D(), lf.pollAttempts)
				}
			}
			// a fan stalled at its maximum: the controller must have reported and stopped
			if lf.restored {
				res.Probe("stopped-and-restored")
				mode, pwm := st.W.FileMode(id), st.W.FilePwm(id)
				if !handedBack(lf.spec, pwm, mode) && st.CancelledT == 0 {
					res.Violate("C10", "restored-state", "restored-state fan="+lf.spec.Kind, 0, nil, "fan %s: regulation stopped but the fan was left in mode %d at PWM %d", id, mode, pwm)
				}
			}
		}
	}
	res.Nontrivial = res.Probes["regulating-writes"] > 0
	if o.props["C02"] || o.props["C10"] {
		res.Nontrivial = res.Probes["raise"] > 0 || res.Probes["stall-episode"] > 0
	}
	if o.props["C12"] && !o.props["C01"] {
		res.Nontrivial = res.Probes["c12-writes-judged"] > 0
	}
	_ = math.Abs
}

func runLoop(props ...string) func(t *testing.T, sc *world.Scenario) *check.Result {
	return func(t *testing.T, sc *world.Scenario) *check.Result {
		return runL1(t, sc, func(st *stage.Stage, res *check.Result) []Oracle {
			st.W.Sampler = cycleSampler(st)
			return []Oracle{newLoopOracle(st, res, props...)}
		})
	}
}

func init() {
	register(&Family{Name: "c01", Run: runLoop("C01", "C12"), Gen: func(seed uint64, tier string) *world.Scenario {
		return genLoop("c01", seed, tier, loopOpts{kinds: []string{"hwmon", "hwmon", "hwmon", "file"}, neverStopP: 0.5, stallP: 0.3, absurdTemps: true, faultP: 0.4, horizonLo: 15, horizonHi: 45, freshP: 0.25})
	}})
	register(&Family{Name: "c01cmd", Run: runLoop("C01", "C12"), Gen: func(seed uint64, tier string) *world.Scenario {
		return genLoop("c01cmd", seed, tier, loopOpts{kinds: []string{"cmd"}, maxFans: 1, neverStopP: 0.5, stallP: 0.3, absurdTemps: true, horizonLo: 10, horizonHi: 16})
	}})
	register(&Family{Name: "c01driven", Run: runC01Driven, Gen: genC01Driven})
	register(&Family{Name: "c02", Run: runLoop("C02"), Gen: func(seed uint64, tier string) *world.Scenario {
		return genLoop("c02", seed, tier, loopOpts{kinds: []string{"hwmon", "hwmon", "file"}, neverStopP: 1, stallP: 0.7, neverSpinP: 0.15, identityOnly: true, horizonLo: 30, horizonHi: 90, rpmWin: []int{1, 2, 5}, unreadableP: 0.25, freshP: 0.35})
	}})
	register(&Family{Name: "c02side", Run: runLoop("C02"), Gen: func(seed uint64, tier string) *world.Scenario {
		return genLoop("c02side", seed, tier, loopOpts{kinds: []string{"hwmon", "hwmon", "file"}, neverStopP: 1, stallP: 0.5, neverSpinP: 0.05, identityOnly: true, horizonLo: 20, horizonHi: 50, rpmWin: []int{1, 2, 5}, rpmSideFaults: true})
	}})
	register(&Family{Name: "c02cmd", Run: runLoop("C02"), Gen: func(seed uint64, tier string) *world.Scenario {
		return genLoop("c02cmd", seed, tier, loopOpts{kinds: []string{"cmd"}, maxFans: 1, neverStopP: 1, stallP: 0.8, neverSpinP: 0.1, identityOnly: true, horizonLo: 20, horizonHi: 30, rpmWin: []int{1, 2}})
	}})
	register(&Family{Name: "c10", Run: runLoop("C10", "C02"), Gen: func(seed uint64, tier string) *world.Scenario {
		r := kernel.NewRand(seed, "c10.extra")
		win := kernel.Pick(r, 1, 2, 3, 5, 10, 10, 20, 50)
		sc := genLoop("c10", seed, tier, loopOpts{kinds: []string{"hwmon", "hwmon", "file"}, maxFans: 1, neverStopP: 1, stallP: 1, neverSpinP: 0.25, identityOnly: r.Bool(0.6), constCurve: true, stableAlgos: true,
			horizonLo: 40, horizonHi: 60, rpmWin: []int{win}})
		c10Tune(sc, r, win)
		if br := kernel.NewRand(seed, "c10.blindmonitor"); br.Bool(0.2) && sc.Fans[0].Kind != "cmd" {
			// from some poll on, the RPM monitor cannot read the PWM value that goes with its RPM sample (the
			// attribute answers EIO / EBUSY to that reader); the tachometer itself reads fine - and reads 0
			sc.Faults = append(sc.Faults, world.FaultSpec{Op: "read", Target: "fan:" + sc.Fans[0].ID + ":pwm", Nth: br.Range(2, 12), Count: 1 << 30, Kind: kernel.Pick(br, "eio", "ebusy", "eagain"), OnlyFlags: "rpm"})
			sc.Variant = "rpm-monitor-cannot-read-pwm"
		} else if tr := kernel.NewRand(seed, "c10.3rd"); tr.Bool(0.3) {
			// something else rewrites the PWM value after every (or every other) control cycle; fan2go
			// re-writes its unchanged request each time and the rotor stays blocked all the same
			f := &sc.Fans[0]
			sc.Env = append(sc.Env, world.EnvEvent{Kind: "3rd.pwm", Fan: f.ID, Value: kernel.Pick(tr, 0, 1, f.Driver.AutoPwm, f.Driver.InitPwm), When: kernel.Pick(tr, "cycle", "cycle", "cycle2"), At: sec(tr.Float() * 12)})
			sc.Variant = "third-party-every-cycle"
		}
		return sc
	}})
	register(&Family{Name: "c10cmd", Run: runLoop("C10", "C02"), Gen: func(seed uint64, tier string) *world.Scenario {
		r := kernel.NewRand(seed, "c10.extra")
		win := kernel.Pick(r, 1, 2, 3)
		sc := genLoop("c10cmd", seed, tier, loopOpts{kinds: []string{"cmd"}, maxFans: 1, neverStopP: 1, stallP: 1, neverSpinP: 0.25, identityOnly: true, constCurve: true, stableAlgos: true,
			horizonLo: 20, horizonHi: 30, rpmWin: []int{win}})
		c10Tune(sc, r, win)
		if sc.Horizon.D() > 150*1e9 {
			sc.Horizon = sec(150)
		}
		return sc
	}})
	register(&Family{Name: "c12", Run: runLoop("C12"), Gen: func(seed uint64, tier string) *world.Scenario {
		sc := genLoop("c12", seed, tier, loopOpts{kinds: []string{"hwmon", "hwmon", "file"}, directOnly: true, fullRange: true, horizonLo: 20, horizonHi: 50, faultP: 0.3})
		r := kernel.NewRand(seed, "c12.extra")
		if r.Bool(0.5) {
			// a ramp sweeps the request through 0..255, one or two units per cycle
			sc.TempWin = 1
			sc.TempPoll = sc.Tick
			for i := range sc.Sensors {
				n := int(sc.Horizon.D()-4*time.Second) / int(sc.Tick.D())
				up := r.Bool(0.5)
				p := world.TempProg{Kind: "ramp", Base: 19000, Delta: 62000/n + 1, Every: sc.Tick, Lo: 15000, Hi: 85000}
				if !up {
					p.Base, p.Delta = 81000, -(62000/n + 1)
				}
				sc.Sensors[i].Prog = p
			}
			sc.Variant = "ramp"
		} else if r.Bool(0.5) {
			// the temperature hops between two or three values every cycle or two (a load that comes and goes),
			// and the PWM attribute cannot be read for a few cycles now and then (EBUSY / EAGAIN / EIO)
			sc.TempWin = 1
			sc.TempPoll = sc.Tick
			for i := range sc.Sensors {
				vals := []int{tempForCurve(r.Range(0, 255)), tempForCurve(r.Range(0, 255)), tempForCurve(r.Range(0, 255))}[:r.Range(2, 3)]
				p := world.TempProg{Kind: "steps", Base: vals[0]}
				k := 0
				for t := 3 * time.Second; t < sc.Horizon.D(); t += time.Duration(r.Range(1, 2)) * sc.Tick.D() {
					k++
					p.Steps = append(p.Steps, world.TempStep{T: world.Dur(t), V: vals[k%len(vals)]})
				}
				sc.Sensors[i].Prog = p
			}
			sc.Faults = nil
			for i := range sc.Fans {
				if sc.Fans[i].Kind == "cmd" {
					continue
				}
				for j, n := 0, r.Range(1, 4); j < n; j++ {
					sc.Faults = append(sc.Faults, world.FaultSpec{Op: "read", Target: "fan:" + sc.Fans[i].ID + ":pwm", Nth: r.Range(2, 150), Count: r.Range(1, 8),
						Kind: kernel.Pick(r, "ebusy", "eagain", "eio", "missing"), OnlyFlags: "upd"})
				}
			}
			sc.Variant = "hopping+busy-reads"
		}
		return sc
	}})
	register(&Family{Name: "c12lim", Run: runLoop("C12"), Gen: func(seed uint64, tier string) *world.Scenario {
		// fans with limits (configured or measured minimum / maximum): the nearest supported input of a
		// request may lie outside [min,max]
		sc := genLoop("c12lim", seed, tier, loopOpts{kinds: []string{"hwmon"}, directOnly: true, neverStopP: 0.7, horizonLo: 20, horizonHi: 50, faultP: 0.3})
		r := kernel.NewRand(seed, "c12lim.extra")
		if r.Bool(0.6) {
			sc.TempWin = 1
			sc.TempPoll = sc.Tick
			for i := range sc.Sensors {
				n := int(sc.Horizon.D()-4*time.Second) / int(sc.Tick.D())
				p := world.TempProg{Kind: "ramp", Base: 19000, Delta: 62000/n + 1, Every: sc.Tick, Lo: 15000, Hi: 85000}
				if r.Bool(0.5) {
					p.Base, p.Delta = 81000, -(62000/n + 1)
				}
				sc.Sensors[i].Prog = p
			}
			sc.Variant = "ramp"
		}
		return sc
	}})
}

// c10Tune makes the stall permanent from a seeded instant, with polls at least
// as frequent as needed and cycles at least as frequent as polls.
func c10Tune(sc *world.Scenario, r *kernel.Rand, win int) {
	sc.RpmPoll = ms(kernel.Pick(r, 100, 200, 500))
	sc.Tick = sc.RpmPoll
	if r.Bool(0.5) {
		sc.Tick = ms(100)
	}
	bound := 20*win + 20
	f := &sc.Fans[0]
	from := 6 + r.Float()*10
	if !f.Plant.NeverSpin {
		f.Plant.Stalls = []world.Interval{{From: sec(from)}}
		if r.Bool(0.3) {
			// the rotor frees itself again later
			f.Plant.Stalls[0].To = sec(from + float64(bound)*sc.RpmPoll.D().Seconds()*(0.5+r.Float()*2))
		}
	}
	f.Plant.NoRpm = false
	// long enough for a few raises within the bound
	sc.Horizon = sec(from + float64(bound)*sc.RpmPoll.D().Seconds()*3.2 + 5)
	if r.Bool(0.4) && f.Kind == "hwmon" {
		// small range so that the maximum is reached
		lo := r.Range(20, 200)
		f.MinPwm, f.MaxPwm = world.IntP(lo), world.IntP(lo+r.Range(0, 3))
	}
	if f.Kind == "hwmon" && f.MinPwm != nil && f.MaxPwm != nil && r.Bool(0.35) {
		// the fan already sits at the value the first cycle will request (e.g. after a restart)
		c := (sc.Sensors[0].Prog.Base - 20000) * 255 / 60000
		if c < 0 {
			c = 0
		}
		if c > 255 {
			c = 255
		}
		f.Driver.InitPwm = *f.MinPwm + int(float64(c)/255*float64(*f.MaxPwm-*f.MinPwm))
	}
}

// ---------------------------------------------------------------------------
// C01 driven cycles (L0): the harness calls the public UpdateFanSpeed itself
// with seeded gaps, including two calls at the same virtual instant (elapsed
// time 0 for the PID control loop and for a PID curve) and sub-microsecond gaps.

func genC01Driven(seed uint64, tier string) *world.Scenario {
	sc, r := baseScenario("c01driven", seed)
	chip := addChip(sc, "simchip")
	sc.NoControllers, sc.NoMonitors = true, true
	sc.LatMin, sc.LatMax = 0, 0 // no virtual latency: consecutive operations share one instant
	sc.Horizon = sec(3600)
	sc.Sensors = append(sc.Sensors, world.SensorSpec{ID: "s0", Kind: "file", Prog: constTemp(50000), Chip: chip})
	if r.Bool(0.5) {
		sc.Curves = append(sc.Curves, world.CurveSpec{ID: "c0", Kind: "pid", Sensor: "s0", PID: &world.PidSpec{SetPoint: float64(r.Range(20, 80)), P: (r.Float() - 0.7) * kernel.Pick(r, 0.1, 1.0, 100.0), I: (r.Float() - 0.7) * kernel.Pick(r, 0.01, 10.0), D: (r.Float() - 0.5) * kernel.Pick(r, 0.01, 1.0, 1000.0)}})
	} else {
		sc.Curves = append(sc.Curves, world.CurveSpec{ID: "c0", Kind: "linear", Sensor: "s0", Min: 20, Max: 80})
	}
	f := world.FanSpec{ID: "f0", Kind: "file", Curve: "c0"}
	f.Plant = world.PlantSpec{NoRpm: true}
	f.Driver = world.DriverSpec{NoEnable: true, InitPwm: r.Range(0, 255)}
	if r.Bool(0.5) {
		// a neverStop hwmon fan with configured limits: the real initialisation sequence (response delay 0)
		// measures an always-spinning plant first, then the cycles are driven
		lo := r.Range(1, 150)
		f = world.FanSpec{ID: "f0", Kind: "hwmon", Curve: "c0", Chip: chip, Channel: 1, NeverStop: true, MinPwm: world.IntP(lo), MaxPwm: world.IntP(r.Range(lo, 255))}
		f.Plant = world.PlantSpec{MaxRpm: 2000, TauMs: 50, InitRpm: 800, MinRpm: 400}
		f.Driver = world.DriverSpec{InitMode: 2, InitPwm: r.Range(0, 255), AutoPwm: 100}
		sc.FanResponseDelay = 0
	}
	switch r.Intn(5) {
	case 0:
		f.Algo = world.AlgoSpec{Kind: "direct", MaxChange: world.IntP(r.Range(1, 255))}
	case 1:
		f.Algo = world.AlgoSpec{Kind: ""}
	case 2:
		// extreme but finite gains
		f.Algo = world.AlgoSpec{Kind: "pid", P: kernel.Pick(r, 1e308, -1e308, 1e300), I: kernel.Pick(r, 1e308, -1e308, 0.0), D: kernel.Pick(r, 0.0, 1e308, -1e308)}
	default:
		f.Algo = world.AlgoSpec{Kind: "pid", P: (r.Float()*4 - 2) * kernel.Pick(r, 1.0, 1e6, 1e-6), I: (r.Float()*2 - 1) * kernel.Pick(r, 1.0, 1e9), D: (r.Float() - 0.5) * kernel.Pick(r, 1.0, 1e-9, 1e9)}
	}
	switch r.Intn(3) {
	case 0:
		m := identityMap()
		f.PwmMap = &m
	case 1:
		m := map[int]int{0: 0, 40: 60, 128: 128, 200: 230, 255: 255}
		f.PwmMap = &m
	default:
		f.Driver.Quant, f.Driver.K = "mult", kernel.Pick(r, 5, 32)
		f.Driver.InitPwm = world.Quantise(&f.Driver, f.Driver.InitPwm)
	}
	sc.Fans = append(sc.Fans, f)
	sc.Params["cycles"] = float64(r.Range(40, 200))
	return sc
}

func runC01Driven(t *testing.T, sc *world.Scenario) *check.Result {
	return runL1(t, sc, func(st *stage.Stage, res *check.Result) []Oracle {
		st.HarnessDriven = true
		o := newLoopOracle(st, res, "C01")
		st.OnBooted = func(st *stage.Stage) {
			st.K.Go("driver", func() {
				r := kernel.NewRand(sc.Seed, "c01driven.task")
				ctl := st.Ctls["f0"]
				if err := ctl.RunInitializationSequence(); err != nil {
					res.Notes["init"] = err.Error()
				}
				n := int(sc.Params["cycles"])
				hold := 0
				for i := 0; i < n; i++ {
					gap := kernel.Pick(r, 0, 0, 0, 1, 17, 1000, 1000000, 200000000, 2000000000)
					if gap > 0 {
						time.Sleep(time.Duration(gap))
					} else {
						res.Probe("driven-cycle-with-zero-elapsed-time")
					}
					// absurd and ordinary sensor states (the linear curve reads the average, the PID curve the file);
					// sometimes the state is held for a burst of cycles, so that the error term does not change
					// between two cycles at the same instant
					if hold > 0 {
						hold--
					} else {
						v := kernel.Pick(r, absurdTemps...)
						if r.Bool(0.5) {
							v = r.Range(0, 100000)
						}
						st.Sensors["s0"].SetMovingAvg(float64(v))
						st.W.Sensors["s0"].Spec.Prog = constTemp(v)
						if r.Bool(0.3) {
							hold = r.Range(2, 8)
						}
					}
					if err := ctl.UpdateFanSpeed(); err != nil {
						res.Probe("update-returned-error")
					}
					res.Probe("driven-cycles")
				}
				st.K.Stop()
			})
		}
		return []Oracle{o}
	})
}
