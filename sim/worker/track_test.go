package worker

import (
	"strconv"
	"time"

	"github.com/markusressel/fan2go/internal/controller"
	"github.com/markusressel/fan2go/zverif/kernel"
	"github.com/markusressel/fan2go/zverif/stage"
)

// CycleSample is the observable state of one fan at a cycle boundary, taken by
// the control goroutine itself right before it parks.
type CycleSample struct {
	Pwm      int     `json:"pwm"`  // content of the PWM file (driver state), -1 unreadable
	Mode     int     `json:"mode"` // content of the enable file, -1 none
	Unexp    int     `json:"unexp"`
	Raises   int     `json:"raises"`
	Offset   int     `json:"offset"`
	MinPwm   int     `json:"min"`
	StartPwm int     `json:"start"`
	MaxPwm   int     `json:"max"`
	CurveVal int     `json:"curve"`
	RpmAvg   float64 `json:"rpmAvg"`
	PlantRpm float64 `json:"plantRpm"`
}

func cycleSampler(st *stage.Stage) func(site, id string) any {
	return func(site, id string) any {
		switch site {
		case "ctl.cycle.end", "ctl.tick", "ctl.delay", "ctl.done":
		default:
			return nil
		}
		fan := st.Fans[id]
		ctl := st.Ctls[id]
		if fan == nil || ctl == nil {
			return nil
		}
		s := &CycleSample{Pwm: st.W.FilePwm(id), Mode: st.W.FileMode(id)}
		var stats controller.FanControllerStatistics = ctl.GetStatistics()
		s.Unexp, s.Raises, s.Offset = stats.UnexpectedPwmValueCount, stats.IncreasedMinPwmCount, stats.MinPwmOffset
		s.MinPwm, s.StartPwm, s.MaxPwm = fan.GetMinPwm(), fan.GetStartPwm(), fan.GetMaxPwm()
		if c := st.Curves[fan.GetCurveId()]; c != nil {
			s.CurveVal = c.CurrentValue()
		}
		s.RpmAvg = fan.GetRpmAvg()
		return s
	}
}

type WriteRec struct {
	Seq   int
	Value int
	Err   string
	Fault string
	Flags kernel.Flags
}

// Cycle is one control cycle of one fan reconstructed from the event stream.
type Cycle struct {
	Fan      string
	Index    int
	StartSeq int
	StartT   time.Duration
	Before   *CycleSample // sample at the tick (state before the cycle)
	Writes   []WriteRec   // PWM writes issued from UpdateFanSpeed
	ModeW    []WriteRec   // mode writes issued in the cycle
	PwmReads []WriteRec   // PWM reads in the cycle
	EndPSeq  int
	EndT     time.Duration
	After    *CycleSample
	Ended    bool
}

// CycleTracker reconstructs control cycles per fan.
type CycleTracker struct {
	st      *stage.Stage
	open    map[string]*Cycle
	count   map[string]int
	OnCycle func(c *Cycle)
	// OnWrite is called for every PWM write to a fan (any activity), with the fan id.
	OnWrite func(fan string, ev *kernel.Event, value int)
	Last    map[string]*Cycle
}

func NewCycleTracker(st *stage.Stage) *CycleTracker {
	return &CycleTracker{st: st, open: map[string]*Cycle{}, count: map[string]int{}, Last: map[string]*Cycle{}}
}

// pwmWriteOf decodes an event as a PWM write on a fan: (fan id, value, true).
func pwmWriteOf(st *stage.Stage, ev *kernel.Event) (string, int, bool) {
	switch ev.Kind {
	case "write":
		tg := st.W.TargetOfPath(ev.Site)
		if tg != nil && tg.Kind == "fan" && tg.Role == "pwm" {
			return tg.ID, ev.Val, true
		}
	case "yield":
		if ev.Site != "exec.start" {
			return "", 0, false
		}
		tg := st.W.TargetOfExe(ev.ID)
		if tg != nil && tg.Kind == "fan" && tg.Role == "setpwm" && len(ev.Args) > 0 {
			v, err := strconv.Atoi(ev.Args[0])
			if err == nil {
				return tg.ID, v, true
			}
		}
	}
	return "", 0, false
}

func modeWriteOf(st *stage.Stage, ev *kernel.Event) (string, int, bool) {
	if ev.Kind == "write" {
		tg := st.W.TargetOfPath(ev.Site)
		if tg != nil && tg.Kind == "fan" && tg.Role == "enable" {
			return tg.ID, ev.Val, true
		}
	}
	return "", 0, false
}

func pwmReadOf(st *stage.Stage, ev *kernel.Event) (string, int, bool) {
	switch ev.Kind {
	case "read":
		tg := st.W.TargetOfPath(ev.Site)
		if tg != nil && tg.Kind == "fan" && tg.Role == "pwm" {
			return tg.ID, ev.Val, true
		}
	case "yield":
		if ev.Site != "exec.start" {
			return "", 0, false
		}
		tg := st.W.TargetOfExe(ev.ID)
		if tg != nil && tg.Kind == "fan" && tg.Role == "getpwm" {
			v, err := strconv.Atoi(ev.Out)
			if err == nil {
				return tg.ID, v, true
			}
		}
	}
	return "", 0, false
}

func (ct *CycleTracker) OnEvent(ev *kernel.Event) {
	if ev.Kind == "yield" && ev.Site != "exec.start" {
		switch ev.Site {
		case "ctl.tick":
			n := ct.count[ev.ID]
			ct.count[ev.ID] = n + 1
			c := &Cycle{Fan: ev.ID, Index: n, StartSeq: ev.Seq, StartT: ev.T}
			if s, ok := ev.Sample.(*CycleSample); ok {
				c.Before = s
			}
			ct.open[ev.ID] = c
		case "ctl.cycle.end":
			c := ct.open[ev.ID]
			if c != nil {
				c.Ended = true
				c.EndPSeq = ev.PSeq
				c.EndT = ev.T
				if s, ok := ev.Sample.(*CycleSample); ok {
					c.After = s
				}
				delete(ct.open, ev.ID)
				ct.Last[ev.ID] = c
				if ct.OnCycle != nil {
					ct.OnCycle(c)
				}
			}
		}
		return
	}
	if id, v, ok := pwmWriteOf(ct.st, ev); ok {
		if ct.OnWrite != nil {
			ct.OnWrite(id, ev, v)
		}
		if c := ct.open[id]; c != nil && ev.Flags&kernel.FUpdate != 0 {
			c.Writes = append(c.Writes, WriteRec{Seq: ev.Seq, Value: v, Err: ev.Err, Fault: ev.Fault, Flags: ev.Flags})
		}
		return
	}
	if id, v, ok := modeWriteOf(ct.st, ev); ok {
		if c := ct.open[id]; c != nil && ev.Flags&kernel.FUpdate != 0 {
			c.ModeW = append(c.ModeW, WriteRec{Seq: ev.Seq, Value: v, Err: ev.Err, Fault: ev.Fault, Flags: ev.Flags})
		}
		return
	}
	if id, v, ok := pwmReadOf(ct.st, ev); ok {
		if c := ct.open[id]; c != nil && ev.Flags&kernel.FUpdate != 0 {
			c.PwmReads = append(c.PwmReads, WriteRec{Seq: ev.Seq, Value: v, Err: ev.Err, Fault: ev.Fault, Flags: ev.Flags})
		}
	}
}
