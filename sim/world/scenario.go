// Package world models everything outside the fan2go process: the hwmon tree
// with its drivers, physical fans (plants), temperatures, third parties,
// external commands, signals, and the fault plan. A Scenario is explicit data
// (JSON), generated from a seed; (Scenario, Seed) determines one execution.
package world

import (
	"encoding/json"
	"time"
)

// Dur is a time.Duration that marshals as a string ("1.5s").
type Dur time.Duration

func (d Dur) D() time.Duration { return time.Duration(d) }
func (d Dur) MarshalJSON() ([]byte, error) {
	return json.Marshal(time.Duration(d).String())
}
func (d *Dur) UnmarshalJSON(b []byte) error {
	var s string
	if err := json.Unmarshal(b, &s); err != nil {
		var n int64
		if err2 := json.Unmarshal(b, &n); err2 != nil {
			return err
		}
		*d = Dur(n)
		return nil
	}
	v, err := time.ParseDuration(s)
	*d = Dur(v)
	return err
}

type Scenario struct {
	Family  string `json:"family"`  // which generator / oracle set produced it
	Seed    uint64 `json:"seed"`    // VERIF_SEED-derived; seeds schedule, latency streams
	Variant string `json:"variant"` // free-form label (swarm configuration)

	Horizon Dur `json:"horizon"` // virtual time at which the context is cancelled
	Grace   Dur `json:"grace"`   // extra virtual time for orderly shutdown

	TempPoll     Dur  `json:"tempPoll"`
	RpmPoll      Dur  `json:"rpmPoll"`
	Tick         Dur  `json:"tick"`
	TempWin      int  `json:"tempWin"`
	RpmWin       int  `json:"rpmWin"`
	ParallelInit bool `json:"parallelInit"`
	// FalseWord (L2): how the configuration document spells a false runFanInitializationInParallel ("" = false)
	FalseWord        string  `json:"falseWord,omitempty"`
	FanResponseDelay int     `json:"fanResponseDelay"`
	MaxRpmDiff       float64 `json:"maxRpmDiff"`

	Chips   []ChipSpec   `json:"chips,omitempty"`
	Sensors []SensorSpec `json:"sensors"`
	Curves  []CurveSpec  `json:"curves"`
	Fans    []FanSpec    `json:"fans"`

	Env    []EnvEvent  `json:"env,omitempty"`
	Faults []FaultSpec `json:"faults,omitempty"`

	DB []DBEntry `json:"db,omitempty"` // pre-seeded database content

	LatMin Dur     `json:"latMin"`
	LatMax Dur     `json:"latMax"`
	SlowP  float64 `json:"slowP,omitempty"` // probability of a "slow I/O" latency
	SlowMx Dur     `json:"slowMax,omitempty"`

	FirstCandidate bool `json:"firstCandidate,omitempty"` // schedule: lowest key instead of PRNG
	NoMonitors     bool `json:"noMonitors,omitempty"`     // do not start sensor monitors (driven scenarios)
	NoControllers  bool `json:"noControllers,omitempty"`

	// free-form parameters of the family (oracle settings), kept in the replay file
	Params map[string]float64 `json:"params,omitempty"`
	Notes  string             `json:"notes,omitempty"`
	// RawYAML (L2): use this configuration document instead of rendering the
	// scenario; "@W@" is replaced by the world directory.
	RawYAML string `json:"rawYaml,omitempty"`
}

// ChipSpec is one fake hwmon chip directory.
type ChipSpec struct {
	Dir   string `json:"dir"`  // directory name (hwmon0...)
	Name  string `json:"name"` // content of "name" (chip prefix)
	Bus   int    `json:"bus"`  // libsensors bus type (1 isa, 2 pci, 4 virtual, 5 acpi)
	BusNr int    `json:"busNr"`
	Addr  int    `json:"addr"`
	// extra inputs that exist on the chip but are not used by the configuration
	ExtraFans  []int `json:"extraFans,omitempty"`
	ExtraTemps []int `json:"extraTemps,omitempty"`
	// BadTemps: those of the extra temperature inputs that exist but cannot be read (an empty attribute, as a
	// driver shows for a sensor that is not wired); they are inputs of the chip like any other
	BadTemps []int `json:"badTemps,omitempty"`
}

type TempProg struct {
	Kind  string     `json:"kind"` // const | steps | ramp
	Base  int        `json:"base"` // milli-degrees
	Steps []TempStep `json:"steps,omitempty"`
	// ramp: value = Base + Delta*floor(t/Every), clamped to [Lo,Hi]
	Delta int `json:"delta,omitempty"`
	Every Dur `json:"every,omitempty"`
	Lo    int `json:"lo,omitempty"`
	Hi    int `json:"hi,omitempty"`
}

type TempStep struct {
	T Dur `json:"t"`
	V int `json:"v"`
}

func (p TempProg) At(t time.Duration) int {
	switch p.Kind {
	case "steps":
		v := p.Base
		for _, s := range p.Steps {
			if t >= s.T.D() {
				v = s.V
			} else {
				break
			}
		}
		return v
	case "ramp":
		n := int64(0)
		if p.Every > 0 {
			n = int64(t / p.Every.D())
		}
		v := int64(p.Base) + int64(p.Delta)*n
		if p.Hi > p.Lo {
			if v > int64(p.Hi) {
				v = int64(p.Hi)
			}
			if v < int64(p.Lo) {
				v = int64(p.Lo)
			}
		}
		return int(v)
	default:
		return p.Base
	}
}

type SensorSpec struct {
	ID   string   `json:"id"`
	Kind string   `json:"kind"` // hwmon | file | cmd
	Prog TempProg `json:"prog"`
	// hwmon
	Chip  int `json:"chip,omitempty"`  // index into Scenario.Chips
	TempN int `json:"tempN,omitempty"` // tempN_input number on the chip
	// cmd: output format of the script: "int" (plain), "float" ("%.3f")
	CmdFormat string `json:"cmdFormat,omitempty"`
	// HomeRelative (file sensors): the configured path starts with "~" (the file lives below the home
	// directory of the user running the daemon, in a scratch directory removed with the world)
	HomeRelative bool `json:"homeRelative,omitempty"`
}

type PidSpec struct {
	SetPoint float64 `json:"setPoint"`
	P        float64 `json:"p"`
	I        float64 `json:"i"`
	D        float64 `json:"d"`
}

type CurveSpec struct {
	ID      string          `json:"id"`
	Kind    string          `json:"kind"` // linear | steps | pid | function
	Sensor  string          `json:"sensor,omitempty"`
	Min     int             `json:"min,omitempty"`
	Max     int             `json:"max,omitempty"`
	Steps   map[int]float64 `json:"steps,omitempty"`
	PID     *PidSpec        `json:"pid,omitempty"`
	Func    string          `json:"func,omitempty"`
	Members []string        `json:"members,omitempty"`
}

type AlgoSpec struct {
	Kind      string  `json:"kind"` // "" (unset → default PID) | direct | pid | legacy (controlLoop)
	MaxChange *int    `json:"maxChange,omitempty"`
	P         float64 `json:"p,omitempty"`
	I         float64 `json:"i,omitempty"`
	D         float64 `json:"d,omitempty"`
}

type DriverSpec struct {
	// PWM quantiser: "" identity | "mult" multiples of K (round down) | "levels" nearest lower level
	Quant  string `json:"quant,omitempty"`
	K      int    `json:"k,omitempty"`
	Levels []int  `json:"levels,omitempty"`
	// IgnoreWrites: PWM writes succeed but the value does not change
	IgnoreWrites bool  `json:"ignoreWrites,omitempty"`
	NoEnable     bool  `json:"noEnable,omitempty"`  // no pwmN_enable file
	Modes        []int `json:"modes,omitempty"`     // accepted modes; nil = all of 0..5
	ModeStuck    bool  `json:"modeStuck,omitempty"` // mode writes succeed but are ignored
	InitMode     int   `json:"initMode"`
	InitPwm      int   `json:"initPwm"`
	AutoPwm      int   `json:"autoPwm,omitempty"` // effective PWM while in automatic mode
}

type Interval struct {
	From Dur `json:"from"`
	To   Dur `json:"to"` // 0 = for ever
}

type PlantSpec struct {
	NoRpm     bool       `json:"noRpm,omitempty"` // fan has no RPM input at all
	MaxRpm    int        `json:"maxRpm"`
	StartThr  int        `json:"startThr"`            // spins up only at/above this effective PWM
	StopThr   int        `json:"stopThr"`             // keeps spinning down to this PWM
	MaxEff    int        `json:"maxEff,omitempty"`    // plateau above this PWM (0 = 255)
	TauMs     int        `json:"tauMs"`               // first-order lag time constant
	Bump      int        `json:"bump,omitempty"`      // non-monotone bump amplitude (RPM)
	Stalls    []Interval `json:"stalls,omitempty"`    // rotor blocked
	NeverSpin bool       `json:"neverSpin,omitempty"` // reports 0 RPM always
	InitRpm   int        `json:"initRpm,omitempty"`
	MinRpm    int        `json:"minRpm,omitempty"` // the rotor never reports less than this (always-spinning fan)
}

type FanSpec struct {
	ID        string       `json:"id"`
	Kind      string       `json:"kind"` // hwmon | file | cmd
	NeverStop bool         `json:"neverStop,omitempty"`
	MinPwm    *int         `json:"minPwm,omitempty"`
	StartPwm  *int         `json:"startPwm,omitempty"`
	MaxPwm    *int         `json:"maxPwm,omitempty"`
	PwmMap    *map[int]int `json:"pwmMap,omitempty"`
	Curve     string       `json:"curve"`
	Algo      AlgoSpec     `json:"algo"`
	Driver    DriverSpec   `json:"driver"`
	Plant     PlantSpec    `json:"plant"`
	// hwmon binding
	Chip    int  `json:"chip,omitempty"`
	Channel int  `json:"channel,omitempty"`    // fanN_input number
	PwmChan int  `json:"pwmChannel,omitempty"` // 0 = same as Channel
	ByIndex bool `json:"byIndex,omitempty"`    // select by index instead of rpmChannel
	// cmd fans: no getRpm script
	StartDelay Dur `json:"startDelay,omitempty"` // controller start delay (C16)
	// HomeRelRpm (file fans): the configured rpmPath starts with "~"
	HomeRelRpm bool `json:"homeRelRpm,omitempty"`
	// NoGetPwm: a cmd fan configured with setPwm only (rejected by the validator: only for harness-built configurations)
	NoGetPwm bool `json:"noGetPwm,omitempty"`
}

// EnvEvent is something the environment does at a virtual time or right before
// decision number AtSeq.
type EnvEvent struct {
	At    Dur    `json:"at,omitempty"`
	AtSeq int    `json:"atSeq,omitempty"` // >0: bound to a decision index instead of a time
	Kind  string `json:"kind"`            // 3rd.mode | 3rd.pwm | signal | cancel | chown | chmod | replace | setfile
	Fan   string `json:"fan,omitempty"`
	Value int    `json:"value,omitempty"`
	Path  string `json:"path,omitempty"`
	Text  string `json:"text,omitempty"`
	// When (L2): "restore:N" = right after the Nth write issued from the restore
	// path; "" = by At / AtSeq
	When string `json:"when,omitempty"`
}

// FaultSpec injects one fault at the Nth operation (0-based) of kind Op on Target.
type FaultSpec struct {
	Op     string `json:"op"`     // read | write | exec
	Target string `json:"target"` // fan:<id>:pwm|enable|rpm  sensor:<id>  exe:<name>
	Nth    int    `json:"nth"`
	Count  int    `json:"count,omitempty"` // number of consecutive operations affected (0 → 1)
	// read: eio | missing | empty | garbage | huge | negative | value:<n>
	// write: error | ignored | einval
	// exec: exit1 | garbage | nan | inf | -inf | empty | timeout | huge | notexec | badformat | vanished
	Kind string `json:"kind"`
	// After > 0 binds the fault to a virtual time: Nth and Count then count the matching operations from that
	// moment on (a fault that follows an event of the environment)
	After Dur `json:"after,omitempty"`
	// OnlyFlags restricts the fault to operations whose stack has these flags ("restore", "upd"...)
	OnlyFlags string `json:"onlyFlags,omitempty"`
}

type DBEntry struct {
	Bucket string `json:"bucket"` // fans | fanPwmMap
	Key    string `json:"key"`
	Value  string `json:"value"` // raw bytes (JSON text normally)
}

func (s *Scenario) Clone() *Scenario {
	b, _ := json.Marshal(s)
	var c Scenario
	_ = json.Unmarshal(b, &c)
	return &c
}

func (s *Scenario) JSON() string {
	b, _ := json.MarshalIndent(s, "", " ")
	return string(b)
}

func IntP(v int) *int { return &v }
