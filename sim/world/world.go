package world

import (
	"errors"
	"fmt"
	"math"
	"os"
	"os/user"
	"path/filepath"
	"sort"
	"strconv"
	"strings"
	"sync"
	"syscall"
	"time"

	"github.com/markusressel/fan2go/zverif/kernel"
)

// Target identifies what a path or executable is in the world.
type Target struct {
	Kind string // fan | sensor
	ID   string
	Role string // pwm | enable | rpm | temp | getpwm | setpwm | getrpm | cmd
	Name string // "fan:<id>:<role>" / "sensor:<id>"
}

type FanState struct {
	Spec    *FanSpec
	PwmPath string
	EnaPath string
	RpmPath string
	// RpmConfigPath is what the configuration says when it differs from RpmPath ("~/..." for a file fan)
	RpmConfigPath string
	GetPwmExe     string
	SetPwmExe     string
	GetRpmExe     string
	// plant
	rpm      float64
	spinning bool
	lastT    time.Duration
	// driver: last accepted values
	accPwm  int
	accMode int
	// bookkeeping
	OrigMode int
	OrigPwm  int
}

type SensorState struct {
	Spec *SensorSpec
	Path string // file holding the value (also for cmd sensors: the script cats it)
	Exe  string
	// ConfigPath is what the configuration says (differs from Path for home-relative file sensors: "~/...")
	ConfigPath string
}

type pendingRestore struct {
	path    string
	content []byte
	missing bool
	tmp     string
}

// World implements simhook.Handler.
type World struct {
	Sc  *Scenario
	K   *kernel.Kernel
	Dir string

	Fans    map[string]*FanState
	Sensors map[string]*SensorState
	paths   map[string]*Target
	exes    map[string]*Target

	faults      map[string][]*FaultSpec // by op|target
	opCount     map[string]int
	delayCount  map[string]int // guarded by latMu
	delaysFired int
	FaultsFired map[string]int
	// MemberYields: park at the curve.member yield point (between the member evaluations of a function curve)
	MemberYields bool
	restore      *pendingRestore
	faultMu      sync.Mutex
	afterSeen    map[*FaultSpec]int       // operations seen by time-bound faults since they were armed
	homeScratch  string                   // scratch directory below the home directory (home-relative file sensors)
	curExecByG   map[uint64]*kernel.Event // the command each goroutine is about to start
	curExecMu    sync.Mutex
	latCount     map[string]int
	latMu        sync.Mutex

	sigMu    sync.Mutex
	sigChans []chan os.Signal
	// SignalPanic is set when delivering a signal panicked (send on closed channel).
	SignalPanic string

	// Sampler, if set, is called by the goroutine reaching a Yield site, before
	// it parks; the result is attached to the event.
	Sampler func(site, id string) any

	// RaceMode: hooks only park (no world bookkeeping from repo goroutines).
	RaceMode bool
	// FreeRun: hooks do not even park - goroutines run truly in parallel
	// whenever their timers fire together (race hunting without a schedule).
	FreeRun bool

	hwRoot string
}

var dirCounter int

func shmBase() string {
	if st, err := os.Stat("/dev/shm"); err == nil && st.IsDir() {
		return "/dev/shm"
	}
	return os.TempDir()
}

// New creates the world directory and all files of the scenario. It must be
// called inside the bubble, before any repository code runs.
func New(sc *Scenario, k *kernel.Kernel) (*World, error) {
	kernel.ResetWindows()
	dirCounter++
	dir := filepath.Join(shmBase(), fmt.Sprintf("verif-%d-%d", os.Getpid(), dirCounter))
	if d := os.Getenv("VERIF_WORLD_DIR"); d != "" {
		// L2: the parent chose the directory; a database left by an earlier
		// incarnation survives (only durable state does)
		dir = d
		for _, sub := range []string{"hw", "files", "scripts"} {
			_ = os.RemoveAll(filepath.Join(dir, sub))
		}
	} else {
		_ = os.RemoveAll(dir)
	}
	if err := os.MkdirAll(dir, 0755); err != nil {
		return nil, err
	}
	w := &World{
		Sc: sc, K: k, Dir: dir,
		Fans: map[string]*FanState{}, Sensors: map[string]*SensorState{},
		paths: map[string]*Target{}, exes: map[string]*Target{},
		faults: map[string][]*FaultSpec{}, opCount: map[string]int{}, delayCount: map[string]int{},
		FaultsFired: map[string]int{}, latCount: map[string]int{},
	}
	w.hwRoot = filepath.Join(dir, "hw")
	k.StripPrefix = dir + "/"
	for _, d := range []string{"hw", "files", "scripts", "db"} {
		if err := os.MkdirAll(filepath.Join(dir, d), 0755); err != nil {
			return nil, err
		}
	}
	// chips
	var order []string
	for i := range sc.Chips {
		c := &sc.Chips[i]
		cd := filepath.Join(w.hwRoot, c.Dir)
		if err := os.MkdirAll(cd, 0755); err != nil {
			return nil, err
		}
		writeFile(filepath.Join(cd, "name"), c.Name+"\n")
		writeFile(filepath.Join(cd, "BUS"), fmt.Sprintf("%d %d %d", c.Bus, c.BusNr, c.Addr))
		for _, n := range c.ExtraFans {
			writeFile(filepath.Join(cd, fmt.Sprintf("fan%d_input", n)), "1234")
			writeFile(filepath.Join(cd, fmt.Sprintf("pwm%d", n)), "77")
			writeFile(filepath.Join(cd, fmt.Sprintf("pwm%d_enable", n)), "2")
		}
		for _, n := range c.ExtraTemps {
			content := "33000"
			for _, b := range c.BadTemps {
				if b == n {
					content = ""
				}
			}
			writeFile(filepath.Join(cd, fmt.Sprintf("temp%d_input", n)), content)
		}
		order = append(order, c.Dir)
	}
	// seeded enumeration order of chips
	r := kernel.NewRand(sc.Seed, "env.chiporder")
	for i := len(order) - 1; i > 0; i-- {
		j := r.Intn(i + 1)
		order[i], order[j] = order[j], order[i]
	}
	writeFile(filepath.Join(w.hwRoot, "ORDER"), strings.Join(order, "\n")+"\n")
	os.Setenv("VERIF_HWMON_ROOT", w.hwRoot)

	for i := range sc.Sensors {
		s := &sc.Sensors[i]
		st := &SensorState{Spec: s}
		switch s.Kind {
		case "hwmon":
			st.Path = filepath.Join(w.hwRoot, sc.Chips[s.Chip].Dir, fmt.Sprintf("temp%d_input", s.TempN))
		case "file":
			st.Path = filepath.Join(dir, "files", s.ID+".temp")
			if s.HomeRelative {
				// fan2go expands "~" with os/user.Current().HomeDir
				if abs, rel, ok := w.ensureHomeScratch(dir); ok {
					st.Path = filepath.Join(abs, s.ID+".temp")
					st.ConfigPath = "~/" + filepath.Join(rel, s.ID+".temp")
				}
			}
		case "cmd":
			st.Path = filepath.Join(dir, "files", s.ID+".temp")
			st.Exe = filepath.Join(dir, "scripts", s.ID+"_get.sh")
			writeScript(st.Exe, "#!/bin/sh\necho . >> "+st.Exe+".marker\ncat "+st.Path+"\n")
			w.exes[st.Exe] = &Target{Kind: "sensor", ID: s.ID, Role: "cmd", Name: "sensor:" + s.ID}
		default:
			return nil, fmt.Errorf("sensor kind %q", s.Kind)
		}
		writeFile(st.Path, w.sensorText(s, 0))
		w.paths[st.Path] = &Target{Kind: "sensor", ID: s.ID, Role: "temp", Name: "sensor:" + s.ID}
		w.Sensors[s.ID] = st
	}
	for i := range sc.Fans {
		f := &sc.Fans[i]
		st := &FanState{Spec: f, OrigMode: f.Driver.InitMode, OrigPwm: f.Driver.InitPwm, accPwm: f.Driver.InitPwm, accMode: f.Driver.InitMode}
		switch f.Kind {
		case "hwmon":
			cd := filepath.Join(w.hwRoot, sc.Chips[f.Chip].Dir)
			pc := f.PwmChan
			if pc == 0 {
				pc = f.Channel
			}
			st.RpmPath = filepath.Join(cd, fmt.Sprintf("fan%d_input", f.Channel))
			st.PwmPath = filepath.Join(cd, fmt.Sprintf("pwm%d", pc))
			if !f.Driver.NoEnable {
				st.EnaPath = filepath.Join(cd, fmt.Sprintf("pwm%d_enable", pc))
			} else {
				// an output without an enable attribute (also when the channel was listed among the extras)
				_ = os.Remove(filepath.Join(cd, fmt.Sprintf("pwm%d_enable", pc)))
			}
			if pc != f.Channel {
				// the fan's own channel has a PWM output of its own, which this entry does not use
				for name, val := range map[string]string{fmt.Sprintf("pwm%d", f.Channel): "88", fmt.Sprintf("pwm%d_enable", f.Channel): "2"} {
					if _, err := os.Stat(filepath.Join(cd, name)); err != nil {
						writeFile(filepath.Join(cd, name), val)
					}
				}
			}
		case "file", "cmd":
			st.PwmPath = filepath.Join(dir, "files", f.ID+".pwm")
			if !f.Plant.NoRpm {
				st.RpmPath = filepath.Join(dir, "files", f.ID+".rpm")
				if f.Kind == "file" && f.HomeRelRpm {
					// the tachometer file is named relative to the home directory ("~/...")
					if abs, rel, ok := w.ensureHomeScratch(dir); ok {
						st.RpmPath = filepath.Join(abs, f.ID+".rpm")
						st.RpmConfigPath = "~/" + filepath.Join(rel, f.ID+".rpm")
					}
				}
			}
			if f.Kind == "cmd" {
				st.GetPwmExe = filepath.Join(dir, "scripts", f.ID+"_getpwm.sh")
				st.SetPwmExe = filepath.Join(dir, "scripts", f.ID+"_setpwm.sh")
				writeScript(st.GetPwmExe, "#!/bin/sh\necho . >> "+st.GetPwmExe+".marker\ncat "+st.PwmPath+"\n")
				writeScript(st.SetPwmExe, "#!/bin/sh\necho . >> "+st.SetPwmExe+".marker\nprintf '%s' \"$1\" > "+st.PwmPath+"\n")
				w.exes[st.GetPwmExe] = &Target{Kind: "fan", ID: f.ID, Role: "getpwm", Name: "fan:" + f.ID + ":pwm"}
				w.exes[st.SetPwmExe] = &Target{Kind: "fan", ID: f.ID, Role: "setpwm", Name: "fan:" + f.ID + ":pwm"}
				if !f.Plant.NoRpm {
					st.GetRpmExe = filepath.Join(dir, "scripts", f.ID+"_getrpm.sh")
					writeScript(st.GetRpmExe, "#!/bin/sh\necho . >> "+st.GetRpmExe+".marker\ncat "+st.RpmPath+"\n")
					w.exes[st.GetRpmExe] = &Target{Kind: "fan", ID: f.ID, Role: "getrpm", Name: "fan:" + f.ID + ":rpm"}
				}
			}
		default:
			return nil, fmt.Errorf("fan kind %q", f.Kind)
		}
		writeFile(st.PwmPath, strconv.Itoa(f.Driver.InitPwm))
		w.paths[st.PwmPath] = &Target{Kind: "fan", ID: f.ID, Role: "pwm", Name: "fan:" + f.ID + ":pwm"}
		if st.EnaPath != "" {
			writeFile(st.EnaPath, strconv.Itoa(f.Driver.InitMode))
			w.paths[st.EnaPath] = &Target{Kind: "fan", ID: f.ID, Role: "enable", Name: "fan:" + f.ID + ":enable"}
		}
		st.rpm = float64(f.Plant.InitRpm)
		st.spinning = f.Plant.InitRpm > 0
		if st.RpmPath != "" && !(f.Kind == "hwmon" && f.Plant.NoRpm) {
			writeFile(st.RpmPath, strconv.Itoa(f.Plant.InitRpm))
			w.paths[st.RpmPath] = &Target{Kind: "fan", ID: f.ID, Role: "rpm", Name: "fan:" + f.ID + ":rpm"}
		}
		w.Fans[f.ID] = st
	}
	for i := range sc.Faults {
		ft := &sc.Faults[i]
		key := ft.Op + "|" + ft.Target
		w.faults[key] = append(w.faults[key], ft)
	}
	return w, nil
}

func (w *World) DBPath() string { return filepath.Join(w.Dir, "db", "fan2go.db") }

func (w *World) Cleanup() {
	_ = os.RemoveAll(w.Dir)
	if w.homeScratch != "" {
		_ = os.RemoveAll(w.homeScratch)
		_ = os.Remove(filepath.Dir(w.homeScratch)) // the parent, if it is empty now
	}
}

func writeFile(path, content string) {
	if err := os.WriteFile(path, []byte(content), 0644); err != nil {
		panic("world: " + err.Error())
	}
}

func writeScript(path, content string) {
	if err := os.WriteFile(path, []byte(content), 0755); err != nil {
		panic("world: " + err.Error())
	}
	_ = os.Chmod(path, 0755)
}

// ensureHomeScratch creates (once) the scratch directory of this world below the home directory of the current
// user and returns its absolute path and its path relative to the home directory.
func (w *World) ensureHomeScratch(dir string) (abs, rel string, ok bool) {
	u, err := user.Current()
	if err != nil || u.HomeDir == "" {
		return "", "", false
	}
	rel = filepath.Join(".verif-scratch", filepath.Base(dir))
	abs = filepath.Join(u.HomeDir, rel)
	if err := os.MkdirAll(abs, 0755); err != nil {
		return "", "", false
	}
	w.homeScratch = abs
	w.K.StripPrefix2 = abs + "/"
	return abs, rel, true
}

// CountFault counts a fault that took effect (callable from any goroutine, also in free-running race runs).
func (w *World) CountFault(name string) {
	w.faultMu.Lock()
	w.FaultsFired[name]++
	w.faultMu.Unlock()
}

func (w *World) sensorSpec(id string) *SensorSpec {
	for i := range w.Sc.Sensors {
		if w.Sc.Sensors[i].ID == id {
			return &w.Sc.Sensors[i]
		}
	}
	return nil
}

func (w *World) sensorText(s *SensorSpec, t time.Duration) string {
	v := s.Prog.At(t)
	if s.Kind == "cmd" && s.CmdFormat == "float" {
		return fmt.Sprintf("%d.000", v)
	}
	return strconv.Itoa(v)
}

// ReadInt reads a world file as the driver would report it.
func ReadInt(path string) (int, error) {
	b, err := os.ReadFile(path)
	if err != nil {
		return 0, err
	}
	return strconv.Atoi(strings.TrimSpace(string(b)))
}

// ---------------------------------------------------------------------------
// plant

func inStall(p *PlantSpec, t time.Duration) bool {
	for _, iv := range p.Stalls {
		if t >= iv.From.D() && (iv.To == 0 || t < iv.To.D()) {
			return true
		}
	}
	return false
}

// EffectivePwm is what the motor sees: mode 0 → full speed, automatic → AutoPwm.
func (w *World) EffectivePwm(f *FanState) int {
	pwm, err := ReadInt(f.PwmPath)
	if err != nil {
		pwm = 0
	}
	if f.EnaPath != "" {
		mode, err := ReadInt(f.EnaPath)
		if err == nil {
			if mode == 0 {
				return 255
			}
			if mode >= 2 {
				return f.Spec.Driver.AutoPwm
			}
		}
	}
	return pwm
}

func plantTarget(p *PlantSpec, pwm int) float64 {
	maxEff := p.MaxEff
	if maxEff <= 0 {
		maxEff = 255
	}
	x := pwm
	if x > maxEff {
		x = maxEff
	}
	if x < 0 {
		x = 0
	}
	rpm := float64(p.MaxRpm) * float64(x) / float64(maxEff)
	if p.Bump > 0 {
		rpm += float64(p.Bump) * math.Sin(float64(x)/9.0)
		if rpm < 1 && x > 0 {
			rpm = 1
		}
	}
	return rpm
}

// advance integrates the plant up to virtual time t with the PWM in force.
func (w *World) advance(f *FanState, t time.Duration) {
	p := &f.Spec.Plant
	if p.NoRpm {
		return
	}
	dt := (t - f.lastT).Seconds()
	f.lastT = t
	if p.NeverSpin || inStall(p, t) {
		f.rpm = 0
		f.spinning = false
		return
	}
	pwm := w.EffectivePwm(f)
	if f.spinning {
		if pwm < p.StopThr || pwm <= 0 {
			f.spinning = false
		}
	} else if pwm >= p.StartThr && pwm > 0 {
		f.spinning = true
	}
	target := 0.0
	if f.spinning {
		target = plantTarget(p, pwm)
	}
	if p.TauMs <= 0 || dt < 0 {
		f.rpm = target
	} else if dt > 0 {
		a := 1 - math.Exp(-dt*1000/float64(p.TauMs))
		f.rpm += (target - f.rpm) * a
	}
	if !f.spinning && f.rpm < 1 {
		f.rpm = 0
	}
	if p.MinRpm > 0 && f.rpm < float64(p.MinRpm) {
		f.rpm = float64(p.MinRpm)
	}
}

func (w *World) refreshRpm(f *FanState) {
	if f.RpmPath == "" || f.Spec.Plant.NoRpm {
		return
	}
	w.advance(f, w.K.Now())
	writeFile(f.RpmPath, strconv.Itoa(int(math.Round(f.rpm))))
}

// Rpm reports the plant's current RPM (after advancing to now).
func (w *World) Rpm(id string) float64 {
	f := w.Fans[id]
	w.advance(f, w.K.Now())
	return f.rpm
}

func (w *World) refreshTarget(tg *Target) {
	if tg == nil {
		return
	}
	switch tg.Kind {
	case "sensor":
		s := w.Sensors[tg.ID]
		writeFile(s.Path, w.sensorText(s.Spec, w.K.Now()))
	case "fan":
		if tg.Role == "rpm" || tg.Role == "getrpm" {
			w.refreshRpm(w.Fans[tg.ID])
		}
	}
}

// ---------------------------------------------------------------------------
// driver reactions

func quantise(d *DriverSpec, v int) int {
	switch d.Quant {
	case "mult":
		if d.K > 1 {
			if v >= 255 {
				return 255 // full speed is always a level of its own
			}
			return v / d.K * d.K
		}
	case "levels":
		if len(d.Levels) > 0 {
			best := d.Levels[0]
			for _, l := range d.Levels {
				if l <= v {
					best = l
				}
			}
			if v < d.Levels[0] {
				best = d.Levels[0]
			}
			return best
		}
	}
	return v
}

// Quantise exposes the driver's PWM reaction for reference computations.
func Quantise(d *DriverSpec, v int) int { return quantise(d, v) }

func modeAccepted(d *DriverSpec, m int) bool {
	if d.Modes == nil {
		return m >= 0 && m <= 5
	}
	for _, x := range d.Modes {
		if x == m {
			return true
		}
	}
	return false
}

// ---------------------------------------------------------------------------
// latency & faults

func (w *World) latency(key string) time.Duration {
	sc := w.Sc
	if sc.LatMax <= 0 {
		return 0
	}
	w.latMu.Lock()
	n := w.latCount[key]
	w.latCount[key] = n + 1
	w.latMu.Unlock()
	h := kernel.Hash64(sc.Seed, "latency", key, strconv.Itoa(n))
	span := int64(sc.LatMax.D() - sc.LatMin.D())
	lat := sc.LatMin.D()
	if span > 0 {
		lat += time.Duration(int64(h>>8) % span)
	}
	if sc.SlowP > 0 {
		h2 := kernel.Hash64(sc.Seed, "slow", key, strconv.Itoa(n))
		if float64(h2>>11)/float64(1<<53) < sc.SlowP && sc.SlowMx > 0 {
			lat += time.Duration(int64(h2>>8) % int64(sc.SlowMx.D()))
		}
	}
	return lat
}

// flagMatch: OnlyFlags is a comma-separated list of stack flags that must be
// present ("restore") or absent ("!sweep").
func flagMatch(ft *FaultSpec, flags kernel.Flags) bool {
	if ft.OnlyFlags == "" {
		return true
	}
	have := "+" + flags.String() + "+"
	for _, want := range strings.Split(ft.OnlyFlags, ",") {
		if strings.HasPrefix(want, "!") {
			if strings.Contains(have, "+"+want[1:]+"+") {
				return false
			}
		} else if !strings.Contains(have, "+"+want+"+") {
			return false
		}
	}
	return true
}

// nextFault counts the operation on its target and returns the fault planned
// for this occurrence, if any. Faults with OnlyFlags count only operations
// whose call stack carries that flag (e.g. the 2nd write during "restore").
func (w *World) nextFault(op string, tg *Target, flags kernel.Flags) *FaultSpec {
	if tg == nil {
		return nil
	}
	key := op + "|" + tg.Name
	fl := w.faults[key]
	if fl == nil {
		return nil
	}
	var hit *FaultSpec
	cur := map[string]int{}
	for _, ft := range fl {
		if !flagMatch(ft, flags) || strings.HasPrefix(ft.Kind, "delay:") {
			continue
		}
		if ft.After > 0 {
			// a fault bound to a virtual time: it counts the matching operations from that moment on
			if w.K.Now() < ft.After.D() {
				continue
			}
			if w.afterSeen == nil {
				w.afterSeen = map[*FaultSpec]int{}
			}
			n := w.afterSeen[ft]
			w.afterSeen[ft] = n + 1
			cnt := ft.Count
			if cnt <= 0 {
				cnt = 1
			}
			if hit == nil && n >= ft.Nth && n < ft.Nth+cnt {
				hit = ft
			}
			continue
		}
		ckey := key + "|" + ft.OnlyFlags
		n, ok := cur[ckey]
		if !ok {
			n = w.opCount[ckey]
			cur[ckey] = n
			w.opCount[ckey] = n + 1
		}
		cnt := ft.Count
		if cnt <= 0 {
			cnt = 1
		}
		if hit == nil && n >= ft.Nth && n < ft.Nth+cnt {
			hit = ft
		}
	}
	if hit != nil {
		w.FaultsFired[op+"."+hit.Kind]++
	}
	return hit
}

// DelaysFired is the number of delay faults that took effect.
func (w *World) DelaysFired() int { w.latMu.Lock(); defer w.latMu.Unlock(); return w.delaysFired }

// delayFault: faults of kind "delay:<ms>" do not fail the operation, they make it take that long
// (a hanging driver, a suspended machine): the virtual time passes before the operation is performed.
func (w *World) delayFault(op string, tg *Target, flags kernel.Flags) time.Duration {
	if tg == nil {
		return 0
	}
	key := op + "|" + tg.Name
	var d time.Duration
	cur := map[string]int{}
	w.latMu.Lock() // called before the operation parks, i.e. outside the kernel's serialisation
	defer w.latMu.Unlock()
	for _, ft := range w.faults[key] {
		if !strings.HasPrefix(ft.Kind, "delay:") || !flagMatch(ft, flags) {
			continue
		}
		ckey := key + "|delay|" + ft.OnlyFlags
		n, ok := cur[ckey]
		if !ok {
			n = w.delayCount[ckey]
			cur[ckey] = n
			w.delayCount[ckey] = n + 1
		}
		cnt := max(ft.Count, 1)
		if n >= ft.Nth && n < ft.Nth+cnt && d == 0 {
			ms, _ := strconv.Atoi(ft.Kind[len("delay:"):])
			d = time.Duration(ms) * time.Millisecond
			w.delaysFired++
		}
	}
	return d
}

var ErrInjectedEIO = &os.PathError{Op: "read", Path: "(injected)", Err: syscall.EIO}

func injectedErr(op, path string, errno syscall.Errno) error {
	return &os.PathError{Op: op, Path: path, Err: errno}
}

// ---------------------------------------------------------------------------
// simhook.Handler

func (w *World) BeforeRead(path string) error {
	if w.FreeRun {
		return nil
	}
	ev := kernel.NewEvent("read", path, "", 2)
	if w.RaceMode {
		w.K.Park(ev, nil)
		return nil
	}
	if lat := w.latency("r|" + w.K.Rel(path)); lat > 0 {
		time.Sleep(lat)
	}
	if d := w.delayFault("read", w.paths[path], ev.Flags); d > 0 {
		time.Sleep(d)
	}
	w.K.Park(ev, nil)
	tg := w.paths[path]
	w.refreshTarget(tg)
	ft := w.nextFault("read", tg, ev.Flags)
	if ft == nil {
		return nil
	}
	ev.Fault = "read." + ft.Kind
	switch {
	case ft.Kind == "eio":
		ev.Err = "EIO"
		w.K.Complete(ev)
		return injectedErr("read", path, syscall.EIO)
	case ft.Kind == "eacces":
		ev.Err = "EACCES"
		w.K.Complete(ev)
		return injectedErr("open", path, syscall.EACCES)
	case ft.Kind == "ebusy" || ft.Kind == "eagain" || ft.Kind == "eintr":
		// what a sysfs attribute answers while the chip's bank is locked / the driver is busy
		errno := map[string]syscall.Errno{"ebusy": syscall.EBUSY, "eagain": syscall.EAGAIN, "eintr": syscall.EINTR}[ft.Kind]
		ev.Err = strings.ToUpper(ft.Kind)
		w.K.Complete(ev)
		return injectedErr("read", path, errno)
	case ft.Kind == "missing":
		tmp := path + ".away"
		if err := os.Rename(path, tmp); err == nil {
			w.restore = &pendingRestore{path: path, missing: true, tmp: tmp}
		}
	default:
		old, _ := os.ReadFile(path)
		w.restore = &pendingRestore{path: path, content: old}
		writeFile(path, faultContent(ft.Kind))
	}
	return nil
}

func faultContent(kind string) string {
	switch {
	case kind == "empty":
		return ""
	case kind == "garbage":
		return "n/a\x00\xff"
	case kind == "huge":
		return "99999999999999999999999"
	case kind == "negative":
		return "-1"
	case strings.HasPrefix(kind, "value:"):
		return kind[len("value:"):]
	}
	return "?"
}

func (w *World) AfterRead(path string, value int, err error) {
	if w.RaceMode || w.FreeRun {
		return
	}
	if r := w.restore; r != nil && r.path == path {
		w.restore = nil
		if r.missing {
			_ = os.Rename(r.tmp, r.path)
		} else {
			writeFile(r.path, string(r.content))
		}
	}
	if ev := w.K.Current(); ev != nil && ev.Kind == "read" && ev.Site == path {
		ev.Val = value
		if err != nil {
			ev.Err = errString(err)
		}
		w.K.Complete(ev)
	}
}

func errString(err error) string {
	s := err.Error()
	if len(s) > 120 {
		s = s[:120]
	}
	return s
}

func (w *World) BeforeWrite(path string, value int) error {
	if w.FreeRun {
		return nil
	}
	ev := kernel.NewEvent("write", path, "", 2)
	ev.Val = value
	if w.RaceMode {
		w.K.Park(ev, nil)
		return nil
	}
	if lat := w.latency("w|" + w.K.Rel(path)); lat > 0 {
		time.Sleep(lat)
	}
	w.K.Park(ev, nil)
	tg := w.paths[path]
	if tg != nil && tg.Kind == "fan" {
		f := w.Fans[tg.ID]
		// the plant ran with the old PWM until now
		w.advance(f, w.K.Now())
		switch tg.Role {
		case "pwm":
			if value < 0 || value > 255 {
				ev.Err = "EINVAL"
				ev.Fault = "driver.einval"
				w.K.Complete(ev)
				return injectedErr("write", path, syscall.EINVAL)
			}
		case "enable":
			if !f.Spec.Driver.ModeStuck && !modeAccepted(&f.Spec.Driver, value) {
				ev.Err = "EINVAL"
				ev.Fault = "mode.refused"
				w.FaultsFired["mode.refused"]++
				w.K.Complete(ev)
				return injectedErr("write", path, syscall.EINVAL)
			}
		}
	}
	if ft := w.nextFault("write", tg, ev.Flags); ft != nil {
		ev.Fault = "write." + ft.Kind
		switch ft.Kind {
		case "error":
			ev.Err = "EIO"
			w.K.Complete(ev)
			return injectedErr("write", path, syscall.EIO)
		case "einval":
			ev.Err = "EINVAL"
			w.K.Complete(ev)
			return injectedErr("write", path, syscall.EINVAL)
		case "ebusy":
			ev.Err = "EBUSY"
			w.K.Complete(ev)
			return injectedErr("write", path, syscall.EBUSY)
		case "ignored":
			old, _ := os.ReadFile(path)
			w.restore = &pendingRestore{path: path, content: old}
		}
	}
	return nil
}

func (w *World) AfterWrite(path string, value int, err error) {
	if w.RaceMode || w.FreeRun {
		return
	}
	ev := w.K.Current()
	if ev != nil && !(ev.Kind == "write" && ev.Site == path) {
		ev = nil
	}
	if ev != nil && err != nil {
		ev.Err = errString(err)
	}
	defer w.K.Complete(ev)
	if r := w.restore; r != nil && r.path == path {
		// injected "silently ignored" write
		w.restore = nil
		writeFile(path, string(r.content))
		return
	}
	tg := w.paths[path]
	if tg == nil || tg.Kind != "fan" || err != nil {
		return
	}
	w.driverReact(w.Fans[tg.ID], tg.Role, value, ev)
}

// driverReact applies the driver model after a successful raw write.
func (w *World) driverReact(f *FanState, role string, value int, ev *kernel.Event) {
	d := &f.Spec.Driver
	switch role {
	case "pwm":
		if d.IgnoreWrites {
			writeFile(f.PwmPath, strconv.Itoa(f.accPwm))
			w.FaultsFired["write.ignored(driver)"]++
			return
		}
		q := quantise(d, value)
		if q != value {
			writeFile(f.PwmPath, strconv.Itoa(q))
		}
		f.accPwm = q
	case "enable":
		if d.ModeStuck {
			writeFile(f.EnaPath, strconv.Itoa(f.accMode))
			w.FaultsFired["mode.stuck"]++
			if ev != nil {
				ev.Fault = "mode.stuck"
			}
			return
		}
		f.accMode = value
	}
}

// SetThirdParty writes a mode or PWM value as another program / firmware would.
func (w *World) SetThirdParty(fanID, role string, value int) {
	f := w.Fans[fanID]
	w.advance(f, w.K.Now())
	switch role {
	case "pwm":
		writeFile(f.PwmPath, strconv.Itoa(value))
		f.accPwm = value
		w.FaultsFired["thirdparty.pwm"]++
	case "mode":
		if f.EnaPath != "" {
			writeFile(f.EnaPath, strconv.Itoa(value))
			f.accMode = value
			w.FaultsFired["thirdparty.mode"]++
		}
	}
}

func (w *World) BeforeExec(executable string, args []string) error {
	if w.FreeRun {
		return nil
	}
	ev := kernel.NewEvent("exec", executable, "", 2)
	ev.Args = args
	w.curExecMu.Lock()
	if w.curExecByG == nil {
		w.curExecByG = map[uint64]*kernel.Event{}
	}
	w.curExecByG[ev.G] = ev // per goroutine: several commands may be on their way at the same time
	w.curExecMu.Unlock()
	if w.RaceMode {
		w.K.Park(ev, nil)
		return nil
	}
	if lat := w.latency("x|" + w.K.Rel(executable)); lat > 0 {
		time.Sleep(lat)
	}
	w.K.Park(ev, nil)
	tg := w.exes[executable]
	w.refreshTarget(tg)
	if tg != nil && tg.Kind == "fan" {
		w.advance(w.Fans[tg.ID], w.K.Now())
	}
	op := "exec"
	ft := w.nextFault(op, execTarget(tg), ev.Flags)
	if ft == nil {
		return nil
	}
	ev.Fault = "exec." + ft.Kind
	switch ft.Kind {
	case "timeout":
		// the command would run into its deadline: fan2go sees the deadline error
		ev.Err = "timeout"
		w.K.Complete(ev)
		return errors.New("signal: killed (injected timeout)")
	default:
		// replace the script for this one execution
		old, _ := os.ReadFile(executable)
		st, _ := os.Stat(executable)
		mode := os.FileMode(0755)
		if st != nil {
			mode = st.Mode().Perm()
		}
		w.restore = &pendingRestore{path: executable, content: old, tmp: strconv.Itoa(int(mode))}
		switch ft.Kind {
		case "exit1":
			writeScript(executable, "#!/bin/sh\necho oops >&2\nexit 1\n")
		case "exit1out":
			writeScript(executable, "#!/bin/sh\necho 55\nexit 3\n")
		case "garbage":
			writeScript(executable, "#!/bin/sh\necho 'n/a %%'\n")
		case "grouped":
			// a tool that honours the locale prints the value with thousands grouping ("45,100"): either fan2go
			// understands that (45100) or it is garbage to it - it is never forty-five
			txt := "n/a"
			if tg != nil && tg.Kind == "sensor" {
				if sp := w.sensorSpec(tg.ID); sp != nil {
					if v := sp.Prog.At(w.K.Now()); v >= 1000 {
						txt = fmt.Sprintf("%d,%03d", v/1000, v%1000)
						if v >= 1000000 {
							txt = fmt.Sprintf("%d,%03d,%03d", v/1000000, v/1000%1000, v%1000)
						}
					}
				}
			}
			writeScript(executable, "#!/bin/sh\necho '"+txt+"'\n")
		case "nan":
			writeScript(executable, "#!/bin/sh\necho nan\n")
		case "inf":
			writeScript(executable, "#!/bin/sh\necho inf\n")
		case "-inf":
			writeScript(executable, "#!/bin/sh\necho -inf\n")
		case "empty":
			writeScript(executable, "#!/bin/sh\nexit 0\n")
		case "huge":
			writeScript(executable, "#!/bin/sh\nhead -c 300000 /dev/zero | tr '\\0' '7'\n")
		case "killed":
			writeScript(executable, "#!/bin/sh\nkill -9 $$\n")
		case "notexec":
			_ = os.WriteFile(executable, old, 0644)
			_ = os.Chmod(executable, 0644)
		case "badformat":
			writeScript(executable, "\x7fELF-not-really\n")
		case "vanished":
			// removed between the permission check and the start: done at the exec.start yield
			w.restore.missing = true
		}
	}
	return nil
}

func execTarget(tg *Target) *Target {
	if tg == nil {
		return nil
	}
	if tg.Kind == "fan" {
		return &Target{Kind: tg.Kind, ID: tg.ID, Role: tg.Role, Name: "fan:" + tg.ID + ":" + tg.Role}
	}
	return tg
}

func (w *World) AfterExec(executable string, args []string, out string, err error) {
	if w.RaceMode || w.FreeRun {
		return
	}
	ev := w.K.Current()
	if ev != nil && (ev.Kind == "exec" || (ev.Kind == "yield" && ev.Site == "exec.start")) {
		if len(out) > 64 {
			out = out[:64] + "..."
		}
		ev.Out = out
		if err != nil {
			ev.Err = errString(err)
		}
		defer w.K.Complete(ev)
	}
	if r := w.restore; r != nil && r.path == executable {
		w.restore = nil
		m, _ := strconv.Atoi(r.tmp)
		_ = os.WriteFile(executable, r.content, os.FileMode(m))
		_ = os.Chmod(executable, os.FileMode(m))
	}
	tg := w.exes[executable]
	if tg != nil && tg.Kind == "fan" && tg.Role == "setpwm" && err == nil {
		f := w.Fans[tg.ID]
		if v, e := ReadInt(f.PwmPath); e == nil {
			w.driverReact(f, "pwm", v, nil)
		}
	}
}

func (w *World) Yield(site string, id string) {
	if w.FreeRun {
		return
	}
	if site == "curve.member" && !w.MemberYields {
		// a seam only for families that explore concurrent evaluations of one curve graph
		return
	}
	kernel.NoteYield(site)
	ev := kernel.NewEvent("yield", site, id, 2)
	if w.Sampler != nil && !w.RaceMode {
		ev.Sample = w.Sampler(site, id)
	}
	if site == "exec.start" && !w.RaceMode {
		w.curExecMu.Lock()
		cur := w.curExecByG[ev.G]
		w.curExecMu.Unlock()
		if cur != nil && cur.Site == id {
			ev.Args = cur.Args
			ev.Flags |= cur.Flags
		}
	}
	w.K.Park(ev, nil)
	if site == "exec.start" && !w.RaceMode {
		if r := w.restore; r != nil && r.path == id && r.missing {
			_ = os.Remove(id)
		}
	}
}

func (w *World) BeforeLock(mu *sync.Mutex) {
	if w.FreeRun {
		return
	}
	ev := kernel.NewEvent("lock", "InitializationSequenceMutex", "", 2)
	w.K.Park(ev, func() bool {
		if mu.TryLock() {
			mu.Unlock()
			return true
		}
		return false
	})
}

func (w *World) SignalChan(c chan os.Signal) {
	w.sigMu.Lock()
	w.sigChans = append(w.sigChans, c)
	w.sigMu.Unlock()
}

// DeliverSignal sends sig to every registered channel exactly as os/signal
// does: a non-blocking send. A send on a closed channel panics in the real
// runtime's signal goroutine and kills the process; here the panic is
// recovered, recorded, and the world is halted at that instant.
func (w *World) DeliverSignal(sig os.Signal) (delivered int) {
	w.sigMu.Lock()
	chans := append([]chan os.Signal(nil), w.sigChans...)
	w.sigMu.Unlock()
	w.FaultsFired["signal"]++
	for _, c := range chans {
		func() {
			defer func() {
				if r := recover(); r != nil {
					w.SignalPanic = fmt.Sprint(r)
					w.K.Halt()
				}
			}()
			select {
			case c <- sig:
				delivered++
			default:
			}
		}()
	}
	return delivered
}

// SortedFanIDs returns fan ids in a stable order.
func (w *World) SortedFanIDs() []string {
	var ids []string
	for id := range w.Fans {
		ids = append(ids, id)
	}
	sort.Strings(ids)
	return ids
}

// TargetOfPath returns what a path is in the world (nil if unknown).
func (w *World) TargetOfPath(path string) *Target { return w.paths[path] }

// TargetOfExe returns what an executable is in the world (nil if unknown).
func (w *World) TargetOfExe(exe string) *Target { return w.exes[exe] }

// FilePwm / FileMode read the driver-visible state of a fan (-1 on error).
func (w *World) FilePwm(id string) int {
	v, err := ReadInt(w.Fans[id].PwmPath)
	if err != nil {
		return -1
	}
	return v
}

func (w *World) FileMode(id string) int {
	f := w.Fans[id]
	if f.EnaPath == "" {
		return -1
	}
	v, err := ReadInt(f.EnaPath)
	if err != nil {
		return -1
	}
	return v
}
